"""C14 -- AeRes model images are the catalogue's Gaussians."""
from __future__ import annotations

import ast

from .. import unitrules
from ..core import AnalysisError, kwarg, names_in, norm, walk_no_nested
from .c08 import _resolve_local

EXPLANATION = (
    "Static analysis of AegeanTools/AeRes.py. R1: unit / width-kind / index "
    "abstract interpretation of make_model: src.a/3600 (arcsec->deg) into "
    "sky2pix_ellipse, *FWHM2CC (fwhm->sigma) and theta in degrees into "
    "elliptical_gaussian, and the model centre xo-1, yo-1 has the same "
    "(0-based) origin and axis as the np.mgrid pixel grid it is evaluated "
    "on. R2: the evaluation half-widths depend on both axes' widths and the "
    "rotation, are scaled by a constant that folds to >= 5, and are clipped "
    "to [0, shape[k]] of the matching axis through floor/ceil before int(). "
    "R3: add or mask -> data + model, otherwise data - model; models "
    "accumulate with +=. R4: both off-image guards `continue` before any "
    "indexing. R5: mask mode writes NaN exactly where model >= threshold "
    "for the frac and sigma thresholds. R6: user column names are mapped to "
    "the canonical names position-wise. float32 accumulation error and the "
    "find->subtract residual are not decided.")
ASSUMPTIONS = ["contracts of WCSHelper.sky2pix_ellipse and "
               "fitting.elliptical_gaussian (units.py)"]

MUTANTS = [
    ("--frac default 0 handed on as a fraction", "AegeanTools/CLI/AeRes.py",
     "    if options.frac <= 0:", "    if options.frac < 0:", "C14-R14"),
    ("model centre shifted by two pixels on the first axis",
     "AegeanTools/AeRes.py", "src.peak_flux, xo-1, yo-1,",
     "src.peak_flux, xo+1, yo-1,", "C14-R13"),
    ("debug block converts the widths in place", "AegeanTools/AeRes.py",
     "        if logging.getLogger().isEnabledFor(logging.DEBUG):  # pragma: no cover\n",
     "        if logging.getLogger().isEnabledFor(logging.DEBUG):  # pragma: no cover\n"
     "            sx, sy = sx*FWHM2CC, sy*FWHM2CC\n", "C14-R12"),
    ("frac = 0 falls back to the sigma threshold", "AegeanTools/AeRes.py",
     "            if frac is not None:", "            if frac:", "C14-R5"),
    ("axes sorted into (major, minor) without rotating the angle",
     "AegeanTools/AeRes.py",
     'src.a/3600,\n                                                          src.b/3600, src.pa)',
     'max(src.a, src.b)/3600,\n                                                          min(src.a, src.b)/3600, src.pa)', "C14-R1"),
    ("make_model options reordered, positional caller untouched",
     "AegeanTools/AeRes.py",
     "def make_model(sources, shape, wcshelper, mask=False, frac=None, sigma=4):",
     "def make_model(sources, shape, wcshelper, mask=False, sigma=4, frac=None):",
     "C14-R10"),
    ("sources placed without the distortion terms",
     "AegeanTools/wcs_helpers.py",
     "        pixel = self.wcs.all_world2pix(",
     "        pixel = self.wcs.wcs_world2pix(", "C14-R9"),
    ("model file receives the residual", "AegeanTools/AeRes.py",
     "        hdulist[0].data = model\n        hdulist.writeto(mfile, overwrite=True)",
     "        hdulist[0].data = residual\n        hdulist.writeto(mfile, overwrite=True)",
     "C14-R8"),
    ("float32 cells no longer promoted", "AegeanTools/catalogs.py",
     "                if isinstance(val, np.float32):\n"
     "                    val = np.float64(val)",
     "                if isinstance(val, float):\n"
     "                    val = np.float64(val)", "C14-R7"),
    ("drop /3600", "AegeanTools/AeRes.py", "src.a/3600,", "src.a,",
     "C14-R1"),
    ("drop FWHM2CC", "AegeanTools/AeRes.py",
     "sx*FWHM2CC, sy*FWHM2CC, theta)", "sx, sy*FWHM2CC, theta)", "C14-R1"),
    ("drop -1 on xo", "AegeanTools/AeRes.py",
     "src.peak_flux, xo-1, yo-1,", "src.peak_flux, xo, yo-1,", "C14-R1"),
    ("radians into model", "AegeanTools/AeRes.py",
     "sx*FWHM2CC, sy*FWHM2CC, theta)", "sx*FWHM2CC, sy*FWHM2CC, phi)",
     "C14-R1"),
    ("swap centre", "AegeanTools/AeRes.py",
     "src.peak_flux, xo-1, yo-1,", "src.peak_flux, yo-1, xo-1,", "C14-R1"),
    ("factor 3", "AegeanTools/AeRes.py", "    factor = 5\n",
     "    factor = 3\n", "C14-R2"),
    ("clip wrong axis", "AegeanTools/AeRes.py",
     "xmax = min(np.ceil(xmax), shape[0])",
     "xmax = min(np.ceil(xmax), shape[1])", "C14-R2"),
    ("subtract when adding", "AegeanTools/AeRes.py",
     "    if add or mask:\n        residual = data + model",
     "    if mask:\n        residual = data + model", "C14-R3"),
    ("strict mask threshold", "AegeanTools/AeRes.py",
     "indices = np.where(model >= (frac*src.peak_flux))",
     "indices = np.where(model > (frac*src.peak_flux))", "C14-R5"),
    ("guard after use", "AegeanTools/AeRes.py",
     "        if not 0 < yo < shape[1]:\n            logging.debug(\"source "
     "{0} is not within image\".format(src.island))\n            continue\n",
     "", "C14-R4"),
    ("column map order", "AegeanTools/AeRes.py",
     "['ra', 'dec', 'peak_flux', 'a', 'b', 'pa']):\n        table.rename",
     "['ra', 'dec', 'peak_flux', 'b', 'a', 'pa']):\n        table.rename",
     "C14-R6"),
]
TWINS = [
    ("every numpy float promoted", "AegeanTools/catalogs.py",
     "                if isinstance(val, np.float32):\n"
     "                    val = np.float64(val)",
     "                if isinstance(val, np.floating):\n"
     "                    val = np.float64(val)"),
    ("conversion via variable", "AegeanTools/AeRes.py",
     "src.a/3600,", "src.a / 3600.0,"),
    ("sigma precomputed", "AegeanTools/AeRes.py",
     "sx*FWHM2CC, sy*FWHM2CC, theta)", "FWHM2CC*sx, FWHM2CC*sy, theta)"),
    ("clip arguments swapped alone (the NaN is still caught by the position "
     "guard)", "AegeanTools/AeRes.py",
     "        xmin = max(np.floor(xmin), 0)",
     "        xmin = max(0, np.floor(xmin))"),
    ("position guards merged alone (the NaN is still caught by the isfinite "
     "guard)", "AegeanTools/AeRes.py",
     "        if not 0 < xo < shape[0]:\n            logging.debug(\"source {0} is not within image\".format(src.island))\n            continue\n        if not 0 < yo < shape[1]:",
     "        if xo <= 0 or xo >= shape[0] or yo <= 0 or yo >= shape[1]:"),
]


def r13_centre(ctx, prog, rule="C14-R13"):
    """the model is centred on the catalogue position: sky2pix_ellipse gives
    1-based (FITS) pixel coordinates, the evaluation grid (np.mgrid) is
    0-based, so the centre handed to the Gaussian is position - 1 on both
    axes -- any other shift moves every model by a pixel"""
    from ..core import expand_locals
    ctx.rule(rule, "model centre = catalogue position: the centre arguments "
             "of elliptical_gaussian in make_model are (xo - 1, yo - 1) with "
             "xo, yo the first two values of sky2pix_ellipse (1-based) and "
             "the grid from np.mgrid (0-based)")
    mm = prog.func("AeRes.make_model")
    calls = [c for c in walk_no_nested(mm.node) if isinstance(c, ast.Call)
             and norm(c.func).split(".")[-1] == "elliptical_gaussian"]
    if len(calls) != 1 or len(calls[0].args) < 5:
        raise AnalysisError("%s: elliptical_gaussian call of make_model" %
                            rule)
    unpack = [st for st in walk_no_nested(mm.node)
              if isinstance(st, ast.Assign) and
              isinstance(st.targets[0], ast.Tuple) and
              isinstance(st.value, ast.Call) and
              norm(st.value.func).split(".")[-1] == "sky2pix_ellipse"]
    if len(unpack) != 1:
        raise AnalysisError("%s: sky2pix_ellipse unpacking" % rule)
    names = [norm(e) for e in unpack[0].targets[0].elts[:2]]
    for k, nm in ((3, names[0]), (4, names[1])):
        a = expand_locals(mm.node, calls[0].args[k])
        ok = isinstance(a, ast.BinOp) and isinstance(a.op, ast.Sub) and \
            norm(a.left) == nm and isinstance(a.right, ast.Constant) and \
            a.right.value == 1
        ctx.check(rule, mm, "centre argument %d = %s" % (k + 1, norm(a)),
                  ok, "expected %s - 1 (1-based position on a 0-based "
                  "grid); found %s: the model is shifted against the "
                  "catalogue position" % (nm, norm(a)), node=calls[0])


def r14_cli_threshold(ctx, prog, rule="C14-R14"):
    """the command line selects the threshold like the library: no --frac
    (default 0) means `use --sigma`"""
    from .. import concrete
    ctx.rule(rule, "AeRes command line: the --frac default (0) and any "
             "non-positive value reach make_residual as frac=None (so "
             "--sigma applies), a positive value as itself; the statements "
             "of main() that settle options.frac are interpreted")
    q = "AegeanTools.CLI.AeRes.main"
    if q not in prog.functions:
        raise AnalysisError("%s: CLI.AeRes.main" % rule)
    fi = prog.functions[q]
    stmts = [st for st in walk_no_nested(fi.node)
             if isinstance(st, (ast.If, ast.Assign)) and any(
                 isinstance(x, ast.Attribute) and norm(x) == "options.frac"
                 and isinstance(x.ctx, ast.Store) for x in ast.walk(st))
             and not any(isinstance(p_, ast.If) and st in ast.walk(p_)
                         and p_ is not st for p_ in walk_no_nested(fi.node))]
    calls = [c for c in walk_no_nested(fi.node) if isinstance(c, ast.Call)
             and norm(c.func).split(".")[-1] == "make_residual"]
    if not stmts or not calls:
        raise AnalysisError("%s: frac handling of the command line" % rule)
    fr = kwarg(calls[0], "frac")
    ctx.check(rule, fi, "make_residual receives options.frac",
              fr is not None and norm(fr) == "options.frac",
              "the command line passes %s as frac" %
              (norm(fr) if fr is not None else None), node=calls[0])
    bad = []
    for v in (0, 0.0, -1.0, 0.25, 1.0):
        env = {"options.frac": v}
        try:
            concrete.run(stmts, env)
        except concrete.Unknown as e:
            raise AnalysisError("%s: %s" % (rule, e))
        want = v if v > 0 else None
        if env["options.frac"] != want or \
                (want is None) != (env["options.frac"] is None):
            bad.append((v, env["options.frac"]))
    ctx.check(rule, fi, "--frac sentinel over 5 values", not bad,
              "--frac %s reaches make_residual as frac=%s: the default 0 "
              "must become None, otherwise --mask without --frac uses the "
              "threshold 0*peak_flux and blanks the whole evaluation box" %
              (bad[0] if bad else ("", "")), node=stmts[0])


def r12_diagnostics(ctx, prog, rule="C14-R12"):
    """the model does not depend on the logging level"""
    ctx.rule(rule, "the model is the same at every verbosity: a block that "
             "runs only when a log level is enabled (isEnabledFor / "
             "getEffectiveLevel tests) binds no name that is read after the "
             "block")
    n = 0
    for short in ("AeRes.make_model", "AeRes.make_residual",
                  "AeRes.load_sources"):
        if not prog.has_func(short):
            continue
        fi = prog.func(short)
        for st in walk_no_nested(fi.node):
            if not (isinstance(st, ast.If) and any(
                    isinstance(c, ast.Call) and
                    norm(c.func).split(".")[-1] in ("isEnabledFor",
                                                    "getEffectiveLevel")
                    for c in ast.walk(st.test))):
                continue
            n += 1
            bound = set()
            for b in st.body + st.orelse:
                for x in ast.walk(b):
                    if isinstance(x, ast.Name) and \
                            isinstance(x.ctx, ast.Store):
                        bound.add(x.id)
            end = getattr(st, "end_lineno", st.lineno)
            later = {x.id for x in ast.walk(fi.node)
                     if isinstance(x, ast.Name) and
                     isinstance(x.ctx, ast.Load) and x.lineno > end}
            # a loop body runs again: names read earlier in the enclosing
            # loop count as well
            loops = [l for l in ast.walk(fi.node)
                     if isinstance(l, (ast.For, ast.While)) and
                     any(y is st for y in ast.walk(l))]
            for l in loops:
                later |= {x.id for x in ast.walk(l)
                          if isinstance(x, ast.Name) and
                          isinstance(x.ctx, ast.Load) and not any(
                              x is y for y in ast.walk(st))}
            leak = sorted(bound & later)
            ctx.check(rule, fi, "diagnostic block at line %d binds nothing "
                      "that is used later" % st.lineno, not leak,
                      "the block under `%s` rebinds %s, which the "
                      "computation uses afterwards: the result differs when "
                      "debug logging is switched on" %
                      (norm(st.test, 50), leak), node=st)
    ctx.floor(rule, n, 1, "log-level dependent blocks in AeRes")


def run(ctx):
    prog = ctx.prog
    mm = prog.func("AeRes.make_model")
    mod = prog.modules[mm.module]
    r12_diagnostics(ctx, prog)
    r13_centre(ctx, prog)
    r14_cli_threshold(ctx, prog)
    # ---------------------------------------------------------------- R1
    ctx.rule("C14-R1", "units, width kinds and index origin at the "
             "sky2pix_ellipse and elliptical_gaussian calls of make_model")
    unitrules.apply(ctx, "C14-R1", {"AeRes.make_model"},
                    kinds={"call", "sink", "store"},
                    what="contract sites in make_model", floor=3)
    # ---------------------------------------------------------------- R2
    ctx.rule("C14-R2", "evaluation window: half-widths use sx, sy and the "
             "rotation with a factor >= 5; bounds clipped with floor/ceil to "
             "[0, shape[axis]] of the matching axis before int()")
    import sympy as sp
    from .. import sym
    # the half-width factor, by role: the one numeric constant bound at
    # function level that the per-source loop multiplies the widths with
    loopsF = [l for l in mm.node.body if isinstance(l, ast.For)]
    used_in_loop = {x.id for l in loopsF for x in ast.walk(l)
                    if isinstance(x, ast.Name) and
                    isinstance(x.ctx, ast.Load)}
    fac = [s for s in mm.node.body if isinstance(s, ast.Assign)
           and len(s.targets) == 1 and isinstance(s.targets[0], ast.Name)
           and isinstance(prog.const_value(mod, s.value), (int, float))
           and not isinstance(prog.const_value(mod, s.value), bool)
           and s.targets[0].id in used_in_loop
           and any(isinstance(b, ast.BinOp) and isinstance(b.op, ast.Mult)
                   and s.targets[0].id in names_in(b)
                   for l in loopsF for b in ast.walk(l))]
    FNAME = fac[0].targets[0].id if len(fac) == 1 else "factor"
    fv = prog.const_value(mod, fac[0].value) if len(fac) == 1 else None
    ctx.check("C14-R2", mm, "window factor = %r" % fv,
              isinstance(fv, (int, float)) and fv >= 5,
              "the model must be evaluated out to at least 5 sigma",
              node=fac[0] if fac else mm.node)
    grids = [s for s in walk_no_nested(mm.node) if isinstance(s, ast.Assign)
             and isinstance(s.value, ast.Subscript) and
             prog.dotted(mod, s.value.value) == "numpy.mgrid"]
    if len(grids) != 1 or not isinstance(grids[0].value.slice, ast.Tuple) or \
            len(grids[0].value.slice.elts) != 2:
        raise AnalysisError("C14-R2: np.mgrid[a:b, c:d] pixel grid not found")
    F, SX, SY = sp.symbols("factor sx sy", positive=True)
    PH, XO, YO = sp.symbols("phi xo yo", real=True)
    N0, N1 = sp.symbols("n0 n1", positive=True)

    class T(sym.Translator):
        def expr(self, n):
            if isinstance(n, ast.Subscript) and norm(n.value) == "shape" and \
                    isinstance(n.slice, ast.Constant):
                return (N0, N1)[n.slice.value]
            return super().expr(n)

        def call(self, n):
            fn = norm(n.func)
            if fn in ("max", "min") and len(n.args) == 2:
                a_, b_ = self.expr(n.args[0]), self.expr(n.args[1])
                return sp.Max(a_, b_) if fn == "max" else sp.Min(a_, b_)
            if fn in ("np.floor", "numpy.floor", "math.floor"):
                return sp.floor(self.expr(n.args[0]))
            if fn in ("np.ceil", "numpy.ceil", "math.ceil"):
                return sp.ceiling(self.expr(n.args[0]))
            if fn == "int" and n.args:
                return self.expr(n.args[0])
            return super().call(n)
    tr = T(prog, mod, {FNAME: F, "sx": SX, "sy": SY, "xo": XO, "yo": YO})
    # value-number the loop body up to the grid (phi = radians(theta) etc.)
    loop0 = [l for l in mm.node.body if isinstance(l, ast.For)]
    pre = sorted((x for x in ast.walk(loop0[0]) if isinstance(
        x, (ast.Assign, ast.AugAssign)) and x.lineno < grids[0].lineno),
        key=lambda x: x.lineno)
    keep = {FNAME: F, "sx": SX, "sy": SY, "xo": XO, "yo": YO}
    tr.env["phi"] = PH
    for st in pre:
        tnames = [norm(t) for t in (st.targets if isinstance(st, ast.Assign)
                                    else [st.target])]
        if any(t in ("phi",) or "," in t and ("xo" in t or "sx" in t)
               for t in tnames):
            continue                  # phi / the sky2pix_ellipse unpacking
        try:
            tr.exec([st])
        except sym.Untranslatable:
            pass
        tr.env.update(keep)
        tr.env["phi"] = PH
    sl = grids[0].value.slice.elts
    try:
        got = [tr.expr(sl[0].lower), tr.expr(sl[0].upper),
               tr.expr(sl[1].lower), tr.expr(sl[1].upper)]
    except sym.Untranslatable as e:
        raise AnalysisError("C14-R2: window bounds not translatable: %s" % e)
    hx = F * (sp.Abs(SX * sp.cos(PH)) + sp.Abs(SY * sp.sin(PH)))
    hy = F * (sp.Abs(SX * sp.sin(PH)) + sp.Abs(SY * sp.cos(PH)))
    want = [sp.Max(sp.floor(XO - hx), 0), sp.Min(sp.ceiling(XO + hx), N0),
            sp.Max(sp.floor(YO - hy), 0), sp.Min(sp.ceiling(YO + hy), N1)]
    names_ = ["row start", "row stop", "column start", "column stop"]
    for g_, w_, nm in zip(got, want, names_):
        same = (g_ == w_) or sp.simplify(g_ - w_) == 0
        ctx.check("C14-R2", mm, "window %s" % nm, bool(same),
                  "the evaluation window's %s must be %s (half-width "
                  "factor*(|sx cos|+|sy sin|) along rows, "
                  "factor*(|sx sin|+|sy cos|) along columns, floor/ceil, "
                  "clipped to the image); found %s" % (nm, w_, g_),
                  {"found": str(g_)}, grids[0])
    # ---------------------------------------------------------------- R3
    ctx.rule("C14-R3", "sign pairing and additive accumulation")
    mr = prog.func("AeRes.make_residual")
    ifs = [s for s in walk_no_nested(mr.node) if isinstance(s, ast.If) and
           {"add", "mask"} & names_in(s.test)]
    ok = False
    triples = []
    for s in ifs:
        if len(s.body) == 1 and len(s.orelse) == 1 and \
                isinstance(s.body[0], ast.Assign) and \
                isinstance(s.orelse[0], ast.Assign) and \
                norm(s.body[0].targets[0]) == norm(s.orelse[0].targets[0]):
            triples.append((s.test, s.body[0].value, s.orelse[0].value))
    for s in walk_no_nested(mr.node):
        if isinstance(s, ast.Assign) and isinstance(s.value, ast.IfExp) and \
                {"add", "mask"} & names_in(s.value.test):
            triples.append((s.value.test, s.value.body, s.value.orelse))
            ifs.append(s)
    for test, then, other in triples:
        t = norm(test).replace(" ", "")
        plus = {"data+model", "model+data"}
        if t in ("addormask", "maskoradd"):
            ok = norm(then).replace(" ", "") in plus and \
                norm(other).replace(" ", "") == "data-model"
        elif t in ("not(addormask)", "notaddandnotmask",
                   "not(maskoradd)"):
            ok = norm(other).replace(" ", "") in plus and \
                norm(then).replace(" ", "") == "data-model"
    ctx.check("C14-R3", mr, "add/mask -> +, else -", ok,
              "residual must be data + model when adding or masking and "
              "data - model otherwise", node=ifs[0] if ifs else mr.node)
    mrets = [s for s in walk_no_nested(mm.node) if isinstance(s, ast.Return)
             and isinstance(s.value, ast.Name)]
    if not mrets or len({s.value.id for s in mrets}) != 1:
        raise AnalysisError("C14-R3: make_model does not return one named "
                            "array")
    MARR = mrets[0].value.id
    from ..core import as_update
    acc = [s for s in walk_no_nested(mm.node)
           if isinstance(s, (ast.AugAssign, ast.Assign)) and
           as_update(s) == ("%s[x, y]" % MARR, ast.Add, "model")]
    ctx.check("C14-R3", mm, "m[x, y] += model", len(acc) == 1,
              "models of different sources must add up", node=mm.node)
    # ---------------------------------------------------------------- R4
    ctx.rule("C14-R4", "off-image sources `continue` before indexing: the "
             "disjunction of the skipping guards that precede the first "
             "use of the window equals NOT(0 < xo < shape[0] and 0 < yo < "
             "shape[1]) on every ordering of xo, yo against 0 and the two "
             "axis lengths")
    loop = [l for l in mm.node.body if isinstance(l, ast.For)]
    if not loop:
        raise AnalysisError("C14: source loop not found")
    body = loop[0].body
    first_use = min([i for i, s in enumerate(body) if any(
        isinstance(x, ast.Subscript) and norm(x.value) in (MARR, "np.mgrid")
        for x in ast.walk(s))] or [len(body)])
    skipping = [s for s in body[:first_use] if isinstance(s, ast.If) and
                any(isinstance(b, ast.Continue) for b in s.body) and
                names_in(s.test) & {"xo", "yo"}]

    class _Unk(Exception):
        pass

    def ev(e, env):
        if isinstance(e, ast.Constant) and isinstance(e.value, (int, float)):
            return e.value
        if isinstance(e, ast.Name):
            if e.id in env:
                return env[e.id]
            r = _resolve_local(mm.node, e)
            if r is not e:
                return ev(r, env)
            raise _Unk(e.id)
        if isinstance(e, ast.Subscript) and norm(e.value) == "shape" and \
                isinstance(e.slice, ast.Constant):
            return env["shape"][e.slice.value]
        if isinstance(e, ast.UnaryOp) and isinstance(e.op, ast.Not):
            return not ev(e.operand, env)
        if isinstance(e, ast.UnaryOp) and isinstance(e.op, ast.USub):
            return -ev(e.operand, env)
        if isinstance(e, ast.BoolOp):
            vals = [ev(v, env) for v in e.values]
            return all(vals) if isinstance(e.op, ast.And) else any(vals)
        if isinstance(e, ast.BinOp) and isinstance(e.op, (ast.Add, ast.Sub)):
            a_, b_ = ev(e.left, env), ev(e.right, env)
            return a_ + b_ if isinstance(e.op, ast.Add) else a_ - b_
        if isinstance(e, ast.Compare):
            left = ev(e.left, env)
            for op, c in zip(e.ops, e.comparators):
                right = ev(c, env)
                ok_ = {ast.Lt: left < right, ast.LtE: left <= right,
                       ast.Gt: left > right, ast.GtE: left >= right,
                       ast.Eq: left == right,
                       ast.NotEq: left != right}.get(type(op))
                if ok_ is None:
                    raise _Unk(norm(e))
                if not ok_:
                    return False
                left = right
            return True
        raise _Unk(norm(e))
    N0_, N1_ = 10, 20
    samples = (-1, 0, 0.5, 5, 9.5, 10, 15, 19.5, 20, 21)
    wrong = None
    try:
        for xv in samples:
            for yv in samples:
                env = {"xo": xv, "yo": yv, "shape": (N0_, N1_)}
                skip = any(ev(g_.test, env) for g_ in skipping)
                want = not (0 < xv < N0_ and 0 < yv < N1_)
                if skip != want and wrong is None:
                    wrong = (xv, yv, skip)
    except _Unk as e:
        raise AnalysisError("C14-R4: guard not evaluable (%s)" % e)
    ctx.check("C14-R4", mm, "%d skipping guard(s) before first indexing "
              "(stmt %d): %s" % (len(skipping), first_use,
                                 [norm(g_.test, 50) for g_ in skipping]),
              bool(skipping) and wrong is None,
              "a source centred off the image must be skipped on both axes "
              "(0 < xo < shape[0], 0 < yo < shape[1]) before the window is "
              "computed, and no source centred on the image may be skipped; "
              "with shape=(10, 20) the guards %s for (xo, yo)=%s" %
              ("skip" if wrong and wrong[2] else "do not skip",
               wrong[:2] if wrong else None), node=loop[0])
    # an unprojectable source (NaN pixel position: more than 90 deg from the
    # reference point of a SIN / TAN image) is skipped by SOME guard before
    # the accumulation -- the statements between are interpreted for
    # xo = yo = NaN with python's own min / max semantics (max(nan, 0) is nan
    # but max(0, nan) is 0)
    import math

    def cev(e, env):
        if isinstance(e, ast.Constant):
            return e.value
        if isinstance(e, ast.Name):
            if e.id in env:
                return env[e.id]
            raise _Unk(e.id)
        if isinstance(e, ast.Subscript) and norm(e.value) == "shape" and \
                isinstance(e.slice, ast.Constant):
            return env["shape"][e.slice.value]
        if isinstance(e, ast.UnaryOp):
            v_ = cev(e.operand, env)
            return (not v_) if isinstance(e.op, ast.Not) else (
                -v_ if isinstance(e.op, ast.USub) else v_)
        if isinstance(e, ast.BoolOp):
            vs_ = [cev(v_, env) for v_ in e.values]
            return all(vs_) if isinstance(e.op, ast.And) else any(vs_)
        if isinstance(e, ast.BinOp):
            a_, b_ = cev(e.left, env), cev(e.right, env)
            ops = {ast.Add: lambda: a_ + b_, ast.Sub: lambda: a_ - b_,
                   ast.Mult: lambda: a_ * b_, ast.Div: lambda: a_ / b_}
            if type(e.op) not in ops:
                raise _Unk(norm(e))
            return ops[type(e.op)]()
        if isinstance(e, ast.Compare):
            left = cev(e.left, env)
            for op, c_ in zip(e.ops, e.comparators):
                right = cev(c_, env)
                r_ = {ast.Lt: left < right, ast.LtE: left <= right,
                      ast.Gt: left > right, ast.GtE: left >= right,
                      ast.Eq: left == right,
                      ast.NotEq: left != right}.get(type(op))
                if r_ is None:
                    raise _Unk(norm(e))
                if not r_:
                    return False
                left = right
            return True
        if isinstance(e, (ast.List, ast.Tuple)):
            return [cev(x_, env) for x_ in e.elts]
        if isinstance(e, ast.Call):
            fn = norm(e.func)
            args = [cev(a_, env) for a_ in e.args]
            table = {
                "np.radians": math.radians, "math.radians": math.radians,
                "np.cos": math.cos, "np.sin": math.sin, "abs": abs,
                "np.abs": abs, "np.floor": lambda v_: v_ if v_ != v_
                else math.floor(v_), "np.ceil": lambda v_: v_ if v_ != v_
                else math.ceil(v_), "max": max, "min": min,
                "np.isfinite": lambda v_: [math.isfinite(q_) for q_ in v_]
                if isinstance(v_, list) else math.isfinite(v_),
                "np.isnan": lambda v_: [q_ != q_ for q_ in v_]
                if isinstance(v_, list) else v_ != v_,
                "np.all": lambda v_: all(v_) if isinstance(v_, list)
                else bool(v_),
                "np.any": lambda v_: any(v_) if isinstance(v_, list)
                else bool(v_),
                "all": all, "any": any, "float": float,
            }
            if fn in table:
                return table[fn](*args)
            raise _Unk(fn)
        raise _Unk(norm(e))

    def reaches_accumulation(env):
        for st in body:
            if any(isinstance(x_, ast.Subscript) and
                   norm(x_.value) in (MARR, "np.mgrid")
                   for x_ in ast.walk(st)):
                return True
            if isinstance(st, ast.Assign) and len(st.targets) == 1 and \
                    isinstance(st.targets[0], ast.Name):
                try:
                    env[st.targets[0].id] = cev(st.value, env)
                except _Unk:
                    env.pop(st.targets[0].id, None)
            elif isinstance(st, ast.If):
                try:
                    c_ = cev(st.test, env)
                except _Unk:
                    continue
                if c_ and any(isinstance(b_, ast.Continue)
                              for b_ in st.body):
                    return False
        return True
    nan = float("nan")
    fdef = [s_ for s_ in walk_no_nested(mm.node) if isinstance(s_, ast.Assign)
            and norm(s_.targets[0]) == "factor"]
    base = {"shape": (10, 20), "sx": 2.0, "sy": 1.0, "theta": 30.0,
            "factor": prog.const_value(mod, fdef[0].value) if fdef else 5}
    for label, xv, yv in (("xo", nan, 5.0), ("yo", 5.0, nan),
                          ("xo and yo", nan, nan)):
        env = dict(base, xo=xv, yo=yv)
        ctx.check("C14-R4", mm, "a source with undefined %s is skipped" %
                  label, not reaches_accumulation(env),
                  "with %s = NaN (a position that cannot be projected onto "
                  "the image) no guard skips the source: the window clips "
                  "evaluate to the whole image and `model` (all NaN) is "
                  "added to every pixel" % label, node=loop[0])
    # ---------------------------------------------------------------- R5
    ctx.rule("C14-R5", "mask mode: NaN exactly where model >= threshold")
    wh = [s for s in walk_no_nested(mm.node) if isinstance(s, ast.Assign)
          and norm(s.targets[0]) == "indices"]
    want = {"frac*src.peak_flux", "sigma*src.local_rms"}
    got = set()
    okcmp = bool(wh)
    for s_ in wh:
        v = s_.value
        c_ = v.args[0] if isinstance(v, ast.Call) and norm(v.func) in (
            "np.where", "numpy.where") and v.args else None
        if not (isinstance(c_, ast.Compare) and len(c_.ops) == 1 and
                isinstance(c_.ops[0], ast.GtE) and norm(c_.left) == "model"):
            okcmp = False
            continue
        thr = c_.comparators[0]
        if isinstance(thr, ast.Name):
            for d_ in walk_no_nested(mm.node):
                if isinstance(d_, ast.Assign) and \
                        norm(d_.targets[0]) == thr.id:
                    vv = d_.value
                    for e_ in ([vv.body, vv.orelse] if isinstance(
                            vv, ast.IfExp) else [vv]):
                        got.add(norm(e_).replace(" ", "").strip("()"))
        else:
            got.add(norm(thr).replace(" ", "").strip("()"))
    ctx.check("C14-R5", mm, "mask thresholds %s" % sorted(got),
              okcmp and got == want,
              "masked pixels are those with model >= frac*peak_flux (frac "
              "given) or >= sigma*local_rms", node=wh[0] if wh else mm.node)
    # which threshold is used: the frac threshold whenever frac is GIVEN
    # (0 included: frac = 0 blanks every pixel the model reaches), the
    # sigma threshold only for frac = None -- the selecting tests are
    # interpreted for frac in {None, 0, 0.0, 0.25}
    from .. import concrete as _conc
    sel = [s_ for s_ in ast.walk(mm.node)
           if isinstance(s_, (ast.If, ast.IfExp)) and
           "frac" in names_in(s_.test) and not isinstance(
               s_.test, ast.Compare) or isinstance(s_, (ast.If, ast.IfExp))
           and isinstance(s_.test, ast.Compare) and
           "frac" in names_in(s_.test)]
    nsel = 0
    for s_ in sel:
        uses_frac_body = "frac" in {x.id for b in (
            s_.body if isinstance(s_.body, list) else [s_.body])
            for x in ast.walk(b) if isinstance(x, ast.Name)}
        badv = []
        for v_ in (None, 0, 0.0, 0.25):
            try:
                t_ = bool(_conc.ev(s_.test, {"frac": v_}))
            except _conc.Unknown as e:
                raise AnalysisError("C14-R5: threshold selection %s: %s" %
                                    (norm(s_.test), e))
            takes_frac = t_ if uses_frac_body else not t_
            if takes_frac != (v_ is not None):
                badv.append(v_)
        nsel += 1
        ctx.check("C14-R5", mm, "threshold selected by `%s`" %
                  norm(s_.test, 50), not badv,
                  "with frac = %s the %s threshold is used: a fraction of "
                  "exactly 0 is a request (blank everything the model "
                  "touches), only frac = None means `use sigma`" %
                  (badv[0] if badv else "", "sigma" if badv and
                   badv[0] is not None else "frac"), node=s_)
    ctx.floor("C14-R5", nsel, 1, "tests selecting the mask threshold")
    st = [s for s in walk_no_nested(mm.node) if isinstance(s, ast.Assign) and
          norm(s.targets[0]).replace(" ", "") ==
          "%s[x[indices],y[indices]]" % MARR]
    ctx.check("C14-R5", mm, "NaN store on the selected pixels",
              len(st) == 1 and norm(st[0].value) in ("np.nan", "numpy.nan"),
              "mask mode must blank m[x[indices], y[indices]]",
              node=st[0] if st else mm.node)
    # ---------------------------------------------------------------- R6
    ctx.rule("C14-R6", "column renaming is position-wise user name -> "
             "canonical name")
    ls = prog.func("AeRes.load_sources")

    def as_list(e):
        if isinstance(e, ast.Name):
            e = _resolve_local(ls.node, e)
        return e if isinstance(e, (ast.List, ast.Tuple)) else None
    z = [c for c in walk_no_nested(ls.node) if isinstance(c, ast.Call) and
         norm(c.func) == "zip" and len(c.args) == 2 and
         all(as_list(a) is not None for a in c.args)]
    # the canonical name of each user-column parameter is its default value
    a_ = ls.node.args
    pos = a_.posonlyargs + a_.args
    defaults = {p.arg: d.value for p, d in zip(pos[len(pos) -
                                                   len(a_.defaults):],
                                               a_.defaults)
                if isinstance(d, ast.Constant)}
    ok = False
    if z:
        user = [norm(e) for e in as_list(z[0].args[0]).elts]
        canon = [e.value for e in as_list(z[0].args[1]).elts
                 if isinstance(e, ast.Constant)]
        ok = len(user) == len(canon) == 6 and all(
            defaults.get(u) == c for u, c in zip(user, canon)) and \
            len(set(canon)) == 6
    r7_promotion(ctx, prog)
    r8_outputs(ctx, prog)
    from .. import link as _link
    n10 = _link.argument_binding(ctx, "C14-R10", modules=["AeRes"],
                                 what="make_residual -> make_model: mask, "
                                 "frac, sigma")
    ctx.floor("C14-R10", n10, 2, "internal calls in AeRes")
    # the model is placed with the inverse of the transformation that gave
    # the catalogue its positions (shared with C16-R10)
    from ..regionmodel import region_methods  # noqa: F401  (import check)
    from .c16 import r10_same_transformation
    wc = prog.classes.get("AegeanTools.wcs_helpers.WCSHelper")
    if wc is None:
        raise AnalysisError("C14-R9: class WCSHelper")
    r10_same_transformation(ctx, prog, wc, rule="C14-R9")
    ctx.check("C14-R6", ls, "rename pairs", ok,
              "user column k must be renamed to canonical name k (the "
              "default of the corresponding *_col parameter)",
              node=z[0] if z else ls.node)


def r7_promotion(ctx, prog):
    """catalogue cells read from single-precision columns (what Aegean's own
    FITS tables contain) are promoted to double before they reach the
    spherical geometry of sky2pix_ellipse"""
    ctx.rule("C14-R7", "precision: table_to_source_list promotes "
             "single-precision cells (numpy.float32 is NOT a python float) "
             "to float64, so positions and sizes enter translate / "
             "sky2pix_ellipse in double precision whatever the file format")
    fi = prog.func("catalogs.table_to_source_list")
    mod = prog.modules[fi.module]
    F64 = ("numpy.float64", "float", "numpy.double")
    conv = []
    for st in ast.walk(fi.node):
        if isinstance(st, ast.Assign) and isinstance(st.value, ast.Call) \
                and len(st.value.args) == 1 \
                and norm(st.targets[0]) == norm(st.value.args[0]):
            d = prog.dotted(mod, st.value.func) if isinstance(
                st.value.func, ast.Attribute) else (
                    prog.resolve_name(mod, norm(st.value.func)) or
                    norm(st.value.func))
            if d in F64:
                conv.append(st)
        # value = np.float64(value) if isinstance(value, np.float32) else value
        if isinstance(st, ast.Assign) and isinstance(st.value, ast.IfExp) \
                and isinstance(st.value.body, ast.Call) \
                and len(st.value.body.args) == 1 \
                and norm(st.targets[0]) == norm(st.value.body.args[0]) \
                and norm(st.value.orelse) == norm(st.targets[0]):
            c_ = st.value.body
            d = prog.dotted(mod, c_.func) if isinstance(
                c_.func, ast.Attribute) else (
                    prog.resolve_name(mod, norm(c_.func)) or norm(c_.func))
            if d in F64:
                st._ifexp_test = st.value.test
                conv.append(st)
    ctx.floor("C14-R7", len(conv), 1, "promotions to double in the table "
              "reader")
    WIDE = {"numpy.float32", "numpy.floating", "numpy.number",
            "numpy.inexact", "numbers.Real", "numbers.Number"}
    for st in conv:
        guards = [i for i in ast.walk(fi.node) if isinstance(i, ast.If)
                  and any(x is st for b in i.body for x in ast.walk(b))]
        typed = []
        tests_ = [i.test for i in guards]
        if getattr(st, "_ifexp_test", None) is not None:
            tests_.append(st._ifexp_test)
        for i_test in tests_:
            for c in ast.walk(i_test):
                if isinstance(c, ast.Call) and norm(c.func) == "isinstance" \
                        and len(c.args) == 2 \
                        and norm(c.args[0]) == norm(st.targets[0]):
                    ts = c.args[1].elts if isinstance(
                        c.args[1], (ast.Tuple, ast.List)) else [c.args[1]]
                    typed.append({prog.dotted(mod, t) if isinstance(
                        t, ast.Attribute) else (prog.resolve_name(
                            mod, norm(t)) or norm(t)) for t in ts})
        ok = all(t & WIDE for t in typed)
        ctx.check("C14-R7", fi, "promotion " + norm(st, 50) + " guarded by "
                  + str([sorted(t) for t in typed]), ok,
                  "the promotion to float64 does not apply to numpy.float32 "
                  "cells (float32 is not a subclass of python float): values "
                  "from single-precision columns stay float32, numpy 2 keeps "
                  "the arithmetic of translate() in single precision and the "
                  "model axes are off by up to a few per cent for compact "
                  "sources", node=st)


def r8_outputs(ctx, prog):
    """make_residual writes the residual to rfile and the model to mfile"""
    ctx.rule("C14-R8", "outputs of make_residual: the array stored in the "
             "HDU when rfile is written is the residual (data +/- model), "
             "when mfile is written it is the model returned by make_model")
    fi = prog.func("AeRes.make_residual")
    body = sorted((s_ for s_ in walk_no_nested(fi.node)
                   if isinstance(s_, (ast.Assign, ast.Expr, ast.AugAssign))),
                  key=lambda s_: s_.lineno)
    model = [norm(s_.targets[0]) for s_ in body if isinstance(s_, ast.Assign)
             and isinstance(s_.value, ast.Call)
             and norm(s_.value.func).split(".")[-1] == "make_model"]
    if len(model) != 1:
        raise AnalysisError("C14-R8: make_model call of make_residual")
    model = model[0]
    def combines(e):
        """data +/- model somewhere in e (also under a conditional
        expression)"""
        return any(isinstance(x, ast.BinOp) and
                   isinstance(x.op, (ast.Add, ast.Sub)) and
                   model in names_in(x) and len(names_in(x)) >= 2
                   for x in ast.walk(e))
    resid = {norm(s_.targets[0]) for s_ in body if isinstance(s_, ast.Assign)
             and combines(s_.value)}
    for s_ in body:
        # in-place forms: data -= model
        if isinstance(s_, ast.AugAssign) and isinstance(
                s_.op, (ast.Add, ast.Sub)) and model in names_in(s_.value):
            resid.add(norm(s_.target))
    role = {"rfile": resid, "mfile": {model}}
    cur = None
    cur_is_resid = False
    n = 0
    for s_ in body:
        if isinstance(s_, ast.Assign) and \
                norm(s_.targets[0]).endswith("].data"):
            cur = norm(s_.value)
            cur_is_resid = combines(s_.value)
        if isinstance(s_, ast.Expr) and isinstance(s_.value, ast.Call) and \
                isinstance(s_.value.func, ast.Attribute) and \
                s_.value.func.attr == "writeto" and s_.value.args:
            dest = norm(s_.value.args[0])
            if dest not in role:
                continue
            n += 1
            ctx.check("C14-R8", fi, "%s receives %s" % (dest, cur),
                      cur in role[dest] or (dest == "rfile" and
                                            cur_is_resid),
                      "the file %s is written while the HDU holds `%s`; "
                      "expected %s" % (dest, cur, sorted(role[dest])),
                      node=s_)
    ctx.floor("C14-R8", n, 2, "output files of make_residual")
