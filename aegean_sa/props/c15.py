"""C15 -- compress then expand restores shape, WCS and grid-node values."""
from __future__ import annotations

import ast

import sympy as sp

from .. import sym
from ..cfg import CFG, ENTRY, EXIT
from ..core import AnalysisError, kwarg, names_in, norm, walk_no_nested

EXPLANATION = (
    "Static analysis of fits_tools.compress / is_compressed / expand / "
    "load_image_band and SourceFinder._load_aux_image. R1 (writer/reader "
    "table): the BN_* keys compress writes on every success path equal the "
    "keys is_compressed demands and the keys expand reads and deletes. R2 "
    "(inverse maps, sympy): the CRPIX rewrite of expand composed with that of "
    "compress is the identity for both axes, and CDELTi / CDi_i are "
    "multiplied by the factor in compress and divided by the same factor in "
    "expand, for both keyword families. R3 (grid agreement): the decimation "
    "stride, the stored BN_CFAC and the node spacing used by expand are the "
    "same value, node k sits at k*factor, the output grid extents come from "
    "BN_NPX2 (rows) and BN_NPX1 (columns) which were written from NAXIS2 / "
    "NAXIS1. R4: load_image_band expands before slicing and _load_aux_image "
    "compares shapes on the expanded result. Values in the incomplete last "
    "cell and interpolation accuracy are not decided.")
ASSUMPTIONS = [
    "scipy RegularGridInterpolator is exact at its nodes and linear between",
    "astropy header assignment semantics",
]


MUTANTS = [
    ("factor 1 rejected", "AegeanTools/fits_tools.py",
     "    if not (factor > 0 and isinstance(factor, int)):",
     "    if not (factor > 1 and isinstance(factor, int)):", "C15-R9"),
    ("residual computed with floor division", "AegeanTools/fits_tools.py",
     "    lcx = cx % factor", "    lcx = cx // factor", "C15-R9"),
    ("node array without the extra row", "AegeanTools/fits_tools.py",
     "    new_data = np.empty((nx + 1, ny + 1))",
     "    new_data = np.empty((nx, ny + 1))", "C15-R9"),
    ("extra row copied from the last but one image row",
     "AegeanTools/fits_tools.py",
     "    new_data[-1, :ny] = data[-1, ::factor]",
     "    new_data[-1, :ny] = data[-2, ::factor]", "C15-R9"),
    ("decimated data stored into the first extension",
     "AegeanTools/fits_tools.py",
     "    hdulist[0].data = np.array(new_data, dtype=np.float32)",
     "    hdulist[1].data = np.array(new_data, dtype=np.float32)", "C15-R10"),
    ("compress also rescales the off-diagonal CD terms",
     "AegeanTools/fits_tools.py",
     "        header['CD1_1'] *= factor\n",
     "        header['CD1_1'] *= factor\n"
     "        if 'CD2_1' in header:\n            header['CD2_1'] *= factor\n",
     "C15-R2"),
    ("shared loader opens files unscaled", "AegeanTools/fits_tools.py",
     "        hdulist = fits.open(filename, ignore_missing_end=True)",
     "        hdulist = fits.open(filename, ignore_missing_end=True,\n"
     "                            memmap=True, do_not_scale_image_data=True)",
     "C15-R7"),
    ("expanded file written before the keywords are removed",
     "AegeanTools/fits_tools.py",
     "    # don't need these any more so delete them.\n"
     "    del header['BN_CFAC'], header['BN_NPX1'], header['BN_NPX2']\n"
     "    del header['BN_RPX1'], header['BN_RPX2']\n"
     "    hdulist[0].header = header\n"
     "    if outfile is not None:\n"
     "        hdulist.writeto(outfile, overwrite=True)\n"
     "        logging.info(\"Wrote: {0}\".format(outfile))\n",
     "    if outfile is not None:\n"
     "        hdulist.writeto(outfile, overwrite=True)\n"
     "        logging.info(\"Wrote: {0}\".format(outfile))\n"
     "    # don't need these any more so delete them.\n"
     "    del header['BN_CFAC'], header['BN_NPX1'], header['BN_NPX2']\n"
     "    del header['BN_RPX1'], header['BN_RPX2']\n"
     "    hdulist[0].header = header\n", "C15-R6"),
    ("key never written", "AegeanTools/fits_tools.py",
     "    header['BN_RPX2'] = (lcy, 'Residual on axis 2')\n", "", "C15-R1"),
    ("truthiness test", "AegeanTools/fits_tools.py",
     "    return all(a in header for a in",
     "    return all(header.get(a) for a in", "C15-R1"),
    ("key left behind", "AegeanTools/fits_tools.py",
     "    del header['BN_RPX1'], header['BN_RPX2']\n",
     "    del header['BN_RPX1']\n", "C15-R1"),
    ("crpix not inverted", "AegeanTools/fits_tools.py",
     "    header['CRPIX1'] = (header['CRPIX1'] - 1) * factor + 1",
     "    header['CRPIX1'] = header['CRPIX1'] * factor", "C15-R2"),
    ("cdelt scaled twice", "AegeanTools/fits_tools.py",
     "    if 'CDELT2' in header:\n        header['CDELT2'] /= factor",
     "    if 'CDELT2' in header:\n        header['CDELT2'] *= factor",
     "C15-R2"),
    ("stride differs from stored factor", "AegeanTools/fits_tools.py",
     "    new_data[:nx, :ny] = data[::factor, ::factor]",
     "    new_data[:nx, :ny] = data[::factor, ::factor+1]", "C15-R3"),
    ("original size from wrong axis", "AegeanTools/fits_tools.py",
     "    header['BN_NPX2'] = (header['NAXIS2'], 'original NAXIS2 value')",
     "    header['BN_NPX2'] = (header['NAXIS1'], 'original NAXIS2 value')",
     "C15-R3"),
    ("grid axes swapped", "AegeanTools/fits_tools.py",
     "(gx, gy) = np.mgrid[0:header['BN_NPX2'], 0:header['BN_NPX1']]",
     "(gx, gy) = np.mgrid[0:header['BN_NPX1'], 0:header['BN_NPX2']]",
     "C15-R3"),
    ("node spacing off by one", "AegeanTools/fits_tools.py",
     "    rows = (np.arange(data.shape[0]) + int(lcx/factor))*factor",
     "    rows = (np.arange(data.shape[0]) + 1)*factor", "C15-R3"),
    ("slice before expanding", "AegeanTools/fits_tools.py",
     "    if compressed:\n        hdulist = expand(filename)\n        header "
     "= hdulist[0].header\n",
     "    if compressed and band[1] > 1:\n        hdulist = expand(filename)"
     "\n        header = hdulist[0].header\n", "C15-R4"),
    ("last node moved to the true edge pixel (seed C15c)",
     "AegeanTools/fits_tools.py",
     "    # Do the interpolation\n",
     "    if lcx > 0:\n        rows[-1] = rows[-2] + lcx - 1\n    # Do the interpolation\n", "C15-R3"),
    ("column count bumped by the row residual (seed C15d)",
     "AegeanTools/fits_tools.py",
     "    if lcy > 0:\n        ny += 1", "    if lcx > 0:\n        ny += 1", "C15-R5"),
]
TWINS = [
    ("crpix rewritten", "AegeanTools/fits_tools.py",
     "    header['CRPIX1'] = (header['CRPIX1'] - 1) * factor + 1",
     "    header['CRPIX1'] = header['CRPIX1'] * factor - factor + 1"),
]



def _helper_keys(fnode, call, modtree):
    """candidate keys produced by a module-level helper called with literal
    arguments:  h(header, 1)  where h builds 'CDELT{0}'.format(axis)"""
    if modtree is None or not isinstance(call, ast.Call) or \
            not isinstance(call.func, ast.Name):
        return []
    h = [f for f in modtree.body if isinstance(f, ast.FunctionDef)
         and f.name == call.func.id]
    if len(h) != 1:
        return []
    h = h[0]
    params = [a.arg for a in h.args.args]
    bind = {p_: a.value for p_, a in zip(params, call.args)
            if isinstance(a, ast.Constant)}
    out = []
    for x in ast.walk(h):
        if isinstance(x, ast.Call) and isinstance(x.func, ast.Attribute) \
                and x.func.attr == "format" and \
                isinstance(x.func.value, ast.Constant) and \
                isinstance(x.func.value.value, str):
            vals = []
            for a in x.args:
                if isinstance(a, ast.Constant):
                    vals.append(a.value)
                elif isinstance(a, ast.Name) and a.id in bind:
                    vals.append(bind[a.id])
                else:
                    vals = None
                    break
            if vals is not None:
                try:
                    out.append(x.func.value.value.format(*vals))
                except (IndexError, KeyError, ValueError):
                    pass
        if isinstance(x, ast.JoinedStr):
            parts = []
            for v in x.values:
                if isinstance(v, ast.Constant):
                    parts.append(str(v.value))
                elif isinstance(v, ast.FormattedValue) and isinstance(
                        v.value, ast.Name) and v.value.id in bind and \
                        v.format_spec is None:
                    parts.append(str(bind[v.value.id]))
                else:
                    parts = None
                    break
            if parts is not None:
                out.append("".join(parts))
    return out


def header_stores(fnode, modtree=None):
    """{key: [stmt]} for header['KEY'] = / op= ... ; a store through a key
    variable chosen among literal candidates (key = pick(header, 'A', 'B'))
    is recorded under every candidate"""
    out = {}
    for s in walk_no_nested(fnode):
        tg = None
        if isinstance(s, ast.Assign):
            tg = s.targets[0]
        elif isinstance(s, ast.AugAssign):
            tg = s.target
        if not isinstance(tg, ast.Subscript):
            continue
        if isinstance(tg.slice, ast.Constant) and \
                isinstance(tg.slice.value, str):
            out.setdefault(tg.slice.value, []).append(s)
        elif isinstance(tg.slice, ast.Name):
            # the reaching definition of the key variable: the closest
            # preceding assignment
            defs = [d for d in walk_no_nested(fnode)
                    if isinstance(d, ast.Assign) and
                    norm(d.targets[0]) == tg.slice.id and
                    d.lineno < s.lineno]
            # ... or the key is the variable of a loop over literal keys
            loops = [l for l in walk_no_nested(fnode)
                     if isinstance(l, ast.For) and
                     norm(l.target) == tg.slice.id and
                     any(x is s for x in ast.walk(l))]
            if loops and not defs:
                import copy as _copy
                for k in [a.value for a in ast.walk(loops[-1].iter)
                          if isinstance(a, ast.Constant) and
                          isinstance(a.value, str)]:
                    # the statement as it runs for this key
                    class _K(ast.NodeTransformer):
                        def visit_Name(self, nd, k=k, v=tg.slice.id):
                            if nd.id == v and isinstance(nd.ctx, ast.Load):
                                return ast.copy_location(
                                    ast.Constant(value=k), nd)
                            return nd
                    sp_ = _K().visit(_copy.deepcopy(s))
                    sp_._orig = s
                    out.setdefault(k, []).append(sp_)
                continue
            if not defs:
                continue
            d = max(defs, key=lambda x: x.lineno)
            cands = [a.value for a in ast.walk(d.value)
                     if isinstance(a, ast.Constant) and
                     isinstance(a.value, str)]
            cands += _helper_keys(fnode, d.value, modtree)
            for k in cands:
                out.setdefault(k, []).append(s)
    return out


def run(ctx):
    prog = ctx.prog
    comp = prog.func("fits_tools.compress")
    exp = prog.func("fits_tools.expand")
    isc = prog.func("fits_tools.is_compressed")
    lib = prog.func("fits_tools.load_image_band")
    mod = prog.modules[comp.module]
    # ---------------------------------------------------------------- R1
    ctx.rule("C15-R1", "BN_* keys: written by compress on every success "
             "path == required by is_compressed == read and deleted by "
             "expand")
    cs = header_stores(comp.node, mod.tree)
    written = {k for k in cs if k.startswith("BN_")}
    def key_list(fnode, e):
        """string elements of a literal list / tuple, directly or through a
        local or module-level name"""
        if isinstance(e, ast.Name):
            from .c08 import _resolve_local
            r = _resolve_local(fnode, e)
            if r is e:
                r = mod.consts.get(e.id)
            e = r
        if isinstance(e, (ast.List, ast.Tuple, ast.Set)):
            return [x.value for x in e.elts if isinstance(x, ast.Constant)
                    and isinstance(x.value, str)]
        return []
    required = set()
    for n in ast.walk(isc.node):
        if isinstance(n, (ast.List, ast.Tuple, ast.Name)):
            vals = key_list(isc.node, n)
            if vals and all(v.startswith("BN_") for v in vals):
                required |= set(vals)
        if isinstance(n, ast.Compare) and len(n.ops) == 1 and \
                isinstance(n.ops[0], ast.In) and \
                isinstance(n.left, ast.Constant) and \
                isinstance(n.left.value, str) and \
                n.left.value.startswith("BN_"):
            required.add(n.left.value)
    deleted = set()
    read = set()
    for n in walk_no_nested(exp.node):
        if isinstance(n, ast.Delete):
            for t in n.targets:
                if isinstance(t, ast.Subscript) and \
                        isinstance(t.slice, ast.Constant):
                    deleted.add(t.slice.value)
        if isinstance(n, ast.For) and isinstance(n.target, ast.Name) and any(
                isinstance(d, ast.Delete) and any(
                    isinstance(t, ast.Subscript) and
                    norm(t.slice) == n.target.id for t in d.targets)
                for d in n.body):
            deleted |= set(key_list(exp.node, n.iter))
        if isinstance(n, ast.Subscript) and isinstance(n.ctx, ast.Load) and \
                isinstance(n.slice, ast.Constant) and \
                isinstance(n.slice.value, str) and \
                n.slice.value.startswith("BN_"):
            read.add(n.slice.value)
    if not required:
        raise AnalysisError("C15-R1: key list of is_compressed not found")
    presence_rule(ctx, prog, "C15-R1")
    ctx.check("C15-R1", comp, "written %s vs required %s" %
              (sorted(written), sorted(required)), written == required,
              "compress writes %s but is_compressed requires %s" %
              (sorted(written - required), sorted(required - written)),
              node=comp.node)
    ctx.check("C15-R1", exp, "deleted %s vs required %s" %
              (sorted(deleted), sorted(required)), deleted == required,
              "expand leaves %s in the header / deletes unknown %s" %
              (sorted(required - deleted), sorted(deleted - required)),
              node=exp.node)
    ctx.check("C15-R1", exp, "keys read by expand are written by compress",
              read <= written, "expand reads %s which compress never writes"
              % sorted(read - written), node=exp.node)
    # every success return of compress passes all BN_ stores
    g = CFG(comp.node)
    succ = [n for n, s in g.stmt.items() if g.kind[n] == "return" and
            s.value is not None and norm(s.value) != "None"]
    for k in sorted(written):
        nodes = [n for n, s in g.stmt.items() if s in cs[k]]
        for rn in succ:
            p = g.path_avoiding(ENTRY, rn, nodes)
            ctx.check("C15-R1", comp, "%s written before %s" %
                      (k, norm(g.stmt[rn])), p is None,
                      "a successful return skips writing %s" % k,
                      node=g.stmt[rn], path=g.describe(p) if p else None)
    # ---------------------------------------------------------------- R2
    ctx.rule("C15-R2", "expand's header rewrites invert compress's: CRPIXi "
             "maps compose to the identity; CDELTi/CDi_i scaled by *f then "
             "/f, same keys in the same if/elif order")
    es = header_stores(exp.node, mod.tree)
    f, c = sp.Symbol("f", positive=True), sp.Symbol("c", real=True)
    for key in ("CRPIX1", "CRPIX2"):
        if key not in cs or key not in es:
            ctx.check("C15-R2", comp, key + " rewritten by both",
                      False, "%s is not rewritten by both compress and "
                      "expand" % key, node=comp.node)
            continue

        def as_map(fi, stmt, fname):
            tr = sym.Translator(prog, mod, {fname: f})
            tr.env["header['%s']" % key] = c
            if isinstance(stmt, ast.AugAssign):
                tr.exec([stmt])
                return tr.env["header['%s']" % key]
            return tr.expr(stmt.value)
        try:
            mc = as_map(comp, cs[key][-1], "factor")
            me = as_map(exp, es[key][-1], "factor")
        except sym.Untranslatable as e:
            raise AnalysisError("C15-R2: %s" % e)
        ident = sp.simplify(me.subs(c, mc) - c) == 0
        ctx.check("C15-R2", exp, "%s: expand o compress" % key, ident,
                  "expand(compress(c)) = %s, not c (compress: %s, expand: "
                  "%s)" % (sp.simplify(me.subs(c, mc)), mc, me),
                  {"compress": str(mc), "expand": str(me)}, es[key][-1])
    # the header as a whole: compress followed by expand, interpreted over
    # model headers (which WCS keywords exist is the scenario), restores
    # every original keyword and removes every BN_ keyword -- whatever
    # helpers the updates are written with
    from .. import headermodel as hm
    fS = sp.Symbol("f", positive=True, integer=True)
    base = ["CRPIX1", "CRPIX2", "NAXIS1", "NAXIS2", "CRVAL1", "CRVAL2"]
    scen = (("CDELT", ["CDELT1", "CDELT2"]), ("CD", ["CD1_1", "CD2_2"]),
            ("CDELT+CD", ["CDELT1", "CDELT2", "CD1_1", "CD2_2"]),
            ("CDELT1+CD2_2", ["CDELT1", "CD2_2"]))
    # every keyword the module's code mentions takes part in a scenario
    import re as _re
    mentioned = set()
    for q_, f_ in prog.functions.items():
        if f_.module != comp.module:
            continue
        for x_ in ast.walk(f_.node):
            if isinstance(x_, ast.Constant) and isinstance(x_.value, str) \
                    and _re.fullmatch(r"[A-Z][A-Z0-9_]{1,7}", x_.value) and \
                    not x_.value.startswith("BN_") and \
                    x_.value not in ("HISTORY", "COMMENT", "NAXIS", "BSCALE",
                                     "BZERO"):
                mentioned.add(x_.value)
    extra = sorted(mentioned - set(base))
    scen += (("every keyword the module mentions", extra),
             ("CD matrix", sorted(k for k in set(extra) |
                                  {"CD1_1", "CD1_2", "CD2_1", "CD2_2"}
                                  if k.startswith("CD") and "_" in k)))
    nmod = 0
    for sname, keys in scen:
        if not [k for k in keys if k.startswith(("CDELT", "CD"))]:
            continue            # no pixel scale at all: compress refuses
        h0 = {k: sp.Symbol("h_" + k, real=True)
              for k in dict.fromkeys(base + list(keys))}
        try:
            outs = hm.Machine(prog, mod, ("header",),
                              {"factor": fS}).outcomes(comp, h0)
        except hm.GiveUp as e:
            raise AnalysisError("C15-R2: header effects of compress: %s" % e)
        good = [o for o in outs if not o[0] and not (
            isinstance(o[2], tuple) and o[2] and o[2][0] == "raises")]
        models = {}
        for o in good:
            models.setdefault(str(sorted((k, str(v)) for k, v in
                                         o[1].items())), o[1])
        ctx.check("C15-R2", comp, "compress succeeds on a %s header "
                  "(%d path(s), %d header result(s))" %
                  (sname, len(good), len(models)), bool(models),
                  "no successful path of compress for a header with %s" %
                  keys, node=comp.node)
        for hc in models.values():
            try:
                outs2 = hm.Machine(prog, mod, ("header",), {}).outcomes(exp,
                                                                        hc)
            except hm.GiveUp as e:
                raise AnalysisError("C15-R2: header effects of expand: %s"
                                    % e)
            good2 = [o for o in outs2 if not o[0] and not (
                isinstance(o[2], tuple) and o[2] and o[2][0] == "raises")]
            ctx.check("C15-R2", exp, "expand succeeds on the compressed %s "
                      "header" % sname, bool(good2),
                      "no successful path of expand on the header compress "
                      "wrote (%s)" % sorted(hc), node=exp.node)
            for o in good2:
                he = o[1]
                for k in sorted(h0):
                    nmod += 1
                    v = he.get(k)
                    same = v is not None and v is not hm.OPAQUE and \
                        sp.simplify(sp.sympify(v) - h0[k]) == 0
                    ctx.check("C15-R2", exp, "%s header: %s restored by "
                              "expand o compress" % (sname, k), bool(same),
                              "%s after compress = %s, after expand = %s "
                              "(original h_%s): compress followed by expand "
                              "does not restore this keyword" %
                              (k, hc.get(k), v, k), node=exp.node)
                left = sorted(k for k in he if k.startswith("BN_"))
                ctx.check("C15-R2", exp, "%s header: no BN_ keyword left" %
                          sname, not left, "expand leaves %s in the header" %
                          left, node=exp.node)
    ctx.floor("C15-R2", nmod, 20, "keyword restorations examined")
    # ---------------------------------------------------------------- R3
    ctx.rule("C15-R3", "the decimation stride, BN_CFAC and expand's node "
             "spacing are one value; node k at k*factor; grid extents rows <- "
             "BN_NPX2 <- NAXIS2, cols <- BN_NPX1 <- NAXIS1")
    strides = set()
    for n in walk_no_nested(comp.node):
        if isinstance(n, ast.Slice) and n.step is not None:
            strides.add(norm(n.step))
            ctx.check("C15-R3", comp, "decimation starts at pixel 0: " +
                      norm(n), n.lower is None or norm(n.lower) == "0",
                      "the decimated samples must be the pixels 0, factor, "
                      "2*factor, ...: expand places sample k at k*factor, so "
                      "an offset start shifts the whole map", node=n)
    cf = cs.get("BN_CFAC", [])
    cfv = None
    if cf:
        v = cf[0].value
        cfv = norm(v.elts[0]) if isinstance(v, ast.Tuple) else norm(v)
    ctx.check("C15-R3", comp, "strides %s vs BN_CFAC=%s" % (sorted(strides),
                                                           cfv),
              strides == {cfv} and cfv is not None,
              "the decimation stride and the stored compression factor "
              "differ", node=cf[0] if cf else comp.node)
    for key, src in (("BN_NPX1", "NAXIS1"), ("BN_NPX2", "NAXIS2")):
        st = cs.get(key, [])
        v = st[0].value if st else None
        txt = norm(v.elts[0]) if isinstance(v, ast.Tuple) else (
            norm(v) if v is not None else None)
        ctx.check("C15-R3", comp, "%s <- %s" % (key, txt),
                  txt == "header['%s']" % src,
                  "%s must record the original %s" % (key, src),
                  node=st[0] if st else comp.node)
    fdef = [s for s in walk_no_nested(exp.node) if isinstance(s, ast.Assign)
            and norm(s.targets[0]) == "factor"]
    ctx.check("C15-R3", exp, "factor read from BN_CFAC",
              len(fdef) == 1 and norm(fdef[0].value) == "header['BN_CFAC']",
              "expand must take the node spacing from BN_CFAC",
              node=fdef[0] if fdef else exp.node)
    # output grid
    grids = [s for s in walk_no_nested(exp.node) if isinstance(s, ast.Assign)
             and isinstance(s.value, ast.Subscript) and
             prog.dotted(mod, s.value.value) == "numpy.mgrid"]
    okg = False
    if grids:
        sl = grids[0].value.slice
        if isinstance(sl, ast.Tuple) and len(sl.elts) == 2:
            from .c08 import _resolve_local
            okg = [norm(e.lower) for e in sl.elts] == ["0", "0"] and \
                [norm(_resolve_local(exp.node, e.upper)).replace('"', "'")
                 for e in sl.elts] == ["header['BN_NPX2']",
                                       "header['BN_NPX1']"]
    ctx.check("C15-R3", exp, "output grid extents", okg,
              "the evaluation grid must span rows 0..BN_NPX2 and columns "
              "0..BN_NPX1 (numpy row-major order)",
              node=grids[0] if grids else exp.node)
    # node coordinates: (arange(shape[k]) + <zero term>) * factor
    k = sp.Symbol("k", integer=True, nonnegative=True)
    for axis, nm in ((0, "rows"), (1, "cols")):
        d = [s for s in walk_no_nested(exp.node) if isinstance(s, ast.Assign)
             and norm(s.targets[0]) == nm]
        if len(d) != 1:
            raise AnalysisError("C15-R3: node coordinate definition %s" % nm)
        v = d[0].value

        class T(sym.Translator):
            def call(self, node):
                fn = norm(node.func)
                if fn in ("np.arange", "numpy.arange") and \
                        len(node.args) == 1:
                    a0 = node.args[0]
                    if isinstance(a0, ast.Name):
                        from .c08 import _resolve_local
                        a0 = _resolve_local(exp.node, a0)
                    if norm(a0) != "data.shape[%d]" % axis:
                        raise sym.Untranslatable("arange over %s" %
                                                 norm(node.args[0]))
                    return k
                if fn == "int" and node.args:
                    return sp.floor(self.expr(node.args[0]))
                return super().call(node)
        tr = T(prog, mod, {"factor": f})
        r = sp.Symbol("r", integer=True, nonnegative=True)
        # the residuals BN_RPX1/2 were written as (axis length % factor)
        tr.env["header['BN_RPX1']"] = r
        tr.env["header['BN_RPX2']"] = r
        sym.number_locals(tr, exp.node, d[0].lineno, skip=("factor",))
        try:
            e = tr.expr(v)
        except sym.Untranslatable as ex:
            ctx.check("C15-R3", exp, "node coordinates " + norm(d[0]), False,
                      "not of the form arange(data.shape[%d]) * factor: %s" %
                      (axis, ex), node=d[0])
            continue
        # residual r < factor  =>  floor(r/factor) == 0
        e0 = e.subs(sp.floor(r / f), 0)
        ctx.check("C15-R3", exp, "node coordinates " + norm(d[0]),
                  sp.simplify(e0 - k * f) == 0,
                  "node k of axis %d must sit at k*factor (residual < "
                  "factor); found %s" % (axis, e0), {"expr": str(e)}, d[0])
    # ... and nothing edits the node arrays afterwards
    for nm in ("rows", "cols"):
        edits = []
        for st in walk_no_nested(exp.node):
            tg = st.targets if isinstance(st, ast.Assign) else (
                [st.target] if isinstance(st, ast.AugAssign) else [])
            for t in tg:
                if isinstance(t, ast.Subscript) and norm(t.value) == nm or \
                        (isinstance(st, ast.AugAssign) and norm(t) == nm):
                    edits.append(st)
        ctx.check("C15-R3", exp, "node array %s is not edited after its "
                  "definition" % nm, not edits,
                  "%s moves interpolation nodes away from k*factor: the "
                  "decimated samples are attributed to other pixels, and "
                  "when the moved node coincides with its neighbour (axis "
                  "length = q*factor + 1) the interpolator rejects the "
                  "grid" % [norm(e, 60) for e in edits],
                  node=edits[0] if edits else exp.node)
    interp = [c for c in walk_no_nested(exp.node) if isinstance(c, ast.Call)
              and norm(c.func).endswith("RegularGridInterpolator")]
    oki = bool(interp) and norm(interp[0].args[0]).replace(" ", "") == \
        "(rows,cols)"
    ctx.check("C15-R3", exp, "interpolator axes (rows, cols)", oki,
              "the interpolator must be built on (rows, cols) in that order",
              node=interp[0] if interp else exp.node)
    r5_axes(ctx, prog, comp)
    # ---------------------------------------------------------------- R4
    ctx.rule("C15-R4", "compressed files are expanded before slicing; aux "
             "images are loaded through load_image_band and compared after "
             "expansion")
    g = CFG(lib.node)
    cdef = [n for n, s in g.stmt.items() if g.kind[n] == "stmt" and
            isinstance(s, ast.Assign) and isinstance(s.value, ast.Call) and
            norm(s.value.func) == "is_compressed"]
    exps = [n for n, s in g.stmt.items() if g.kind[n] == "stmt" and
            isinstance(s, ast.Assign) and isinstance(s.value, ast.Call) and
            norm(s.value.func) == "expand"]
    ok4 = len(cdef) == 1 and len(exps) == 1
    if ok4:
        cname = norm(g.stmt[cdef[0]].targets[0])
        # the expand sits under `if <cname>` and dominates returns that use
        # the hdulist
        hname = norm(g.stmt[exps[0]].targets[0])
        for rn, s in g.stmt.items():
            if g.kind[rn] == "return" and hname in names_in(s):
                ok4 = ok4 and g.dominates(exps[0], rn)
        pm = {}
        for x in ast.walk(lib.node):
            for ch in ast.iter_child_nodes(x):
                pm[ch] = x
        par = pm.get(g.stmt[exps[0]])
        ok4 = ok4 and isinstance(par, ast.If) and norm(par.test) == cname
    ctx.check("C15-R4", lib, "expand before slicing", ok4,
              "load_image_band must call expand() under `if compressed` "
              "before any use of the expanded HDU list", node=lib.node)
    aux = prog.func("source_finder.SourceFinder._load_aux_image")
    calls = [c for c in walk_no_nested(aux.node) if isinstance(c, ast.Call)
             and norm(c.func) == "load_image_band"]
    cmpn = [c for c in walk_no_nested(aux.node) if isinstance(c, ast.Compare)
            and ".shape" in norm(c)]
    ok5 = len(calls) == 1 and bool(cmpn)
    if ok5:
        asg = [s for s in walk_no_nested(aux.node) if isinstance(s, ast.Assign)
               and s.value is calls[0]]
        nm = norm(asg[0].targets[0].elts[0]) if asg and isinstance(
            asg[0].targets[0], ast.Tuple) else None
        ok5 = nm is not None and any(nm in names_in(c) for c in cmpn)
    ctx.check("C15-R4", aux, "aux image via load_image_band + shape check",
              ok5, "_load_aux_image must load through load_image_band "
              "(transparent expansion) and compare the shape of its result",
              node=aux.node)
    r6_written(ctx, prog)
    _raw = ctx.raw_prog()      # the bookkeeping is read as it is written
    r9_arithmetic(ctx, _raw, _raw.func("fits_tools.compress"),
                  _raw.func("fits_tools.expand"))
    # compress / expand work on physical values (shared with C20-R6)
    from .c20 import r6_bscale
    r6_bscale(ctx, prog, rule="C15-R7")
    from .c20 import r7_fresh
    r7_fresh(ctx, prog, rule="C15-R8")
    # a compressed bkg / rms file is accepted wherever an uncompressed one
    # is: the header load_image_band returns for a compressed input is the
    # expanded header with the band's two changes (shared with C20-R9)
    from .c20 import r9_header_model
    r9_header_model(ctx, _raw, _raw.func("fits_tools.load_image_band"),
                    rule="C15-R11")


def r9_arithmetic(ctx, prog, comp, exp):
    """the integer bookkeeping of compress, interpreted over sample sizes:
    which factors are accepted, how many nodes are kept, the size of the
    node array, which rows / columns the extra node copies, when the file is
    written; and one HDU index throughout"""
    from .. import concrete
    ctx.rule("C15-R9", "compress, interpreted over sample (size, factor) "
             "pairs: factors 1, 2, 64 pass the argument test and 0, -3, 2.5 "
             "do not; for every size the number of nodes kept per axis is "
             "ceil(size / factor), the residual is size % factor, the node "
             "array has one extra row and column, that extra row / column "
             "is filled from the LAST image row / column (index -1 on both "
             "sides, the regular nodes from [::factor]); the output file is "
             "written exactly when a name is given, overwriting")
    # -- argument test ------------------------------------------------------
    fpar = comp.params[1]
    lead = []
    for st in comp.node.body:
        if isinstance(st, ast.Expr) and isinstance(st.value, ast.Constant):
            continue
        if isinstance(st, ast.If):
            lead.append(st)
            continue
        break                   # the argument tests come first
    guards = [st for st in lead if fpar in names_in(st.test) and st.body and
              isinstance(st.body[-1], (ast.Return, ast.Raise))]
    if not guards:
        raise AnalysisError("C15-R9: argument test of compress")
    bad = []
    for v, want in ((1, False), (2, False), (64, False), (0, True),
                    (-3, True), (2.5, True)):
        try:
            got = any(bool(concrete.ev(g.test, {fpar: v})) for g in guards)
        except concrete.Unknown as e:
            raise AnalysisError("C15-R9: argument test: %s" % e)
        if got != want:
            bad.append((v, "rejected" if got else "accepted"))
    ctx.check("C15-R9", comp, "argument test " + norm(guards[0].test, 60),
              not bad, "factor %s is %s" % (bad[0] if bad else ("", "")),
              node=guards[0])
    # -- node counts --------------------------------------------------------
    body = comp.node.body
    size = [st for st in body if isinstance(st, ast.Assign) and
            isinstance(st.targets[0], ast.Tuple) and
            ".shape" in norm(st.value)]
    if not size:
        # cx = data.shape[0]; cy = data.shape[1]  as two statements
        one = [st for st in body if isinstance(st, ast.Assign) and
               isinstance(st.targets[0], ast.Name) and
               isinstance(st.value, ast.Subscript) and
               norm(st.value.value).endswith(".shape") and
               isinstance(st.value.slice, ast.Constant)]
        one.sort(key=lambda st: st.value.slice.value)
        if len(one) == 2:
            pair = ast.Assign(targets=[ast.Tuple(
                elts=[one[0].targets[0], one[1].targets[0]],
                ctx=ast.Store())], value=ast.Tuple(
                    elts=[one[0].value, one[1].value], ctx=ast.Load()))
            body = [st for st in body if st is not one[0]]
            body[body.index(one[1])] = pair
            size = [pair]
    alloc = [st for st in body if isinstance(st, ast.Assign) and
             isinstance(st.value, ast.Call) and
             norm(st.value.func).split(".")[-1] in ("empty", "zeros",
                                                    "full", "ones")]
    if len(size) != 1 or len(alloc) != 1:
        raise AnalysisError("C15-R9: size / allocation statements of "
                            "compress")
    cxn, cyn = (norm(e) for e in size[0].targets[0].elts)
    arr = norm(alloc[0].targets[0])
    between = body[body.index(size[0]) + 1:body.index(alloc[0])]
    stores = {}
    from ..core import expand_locals
    for key in ("BN_RPX1", "BN_RPX2"):
        for st in walk_no_nested(comp.node):
            if isinstance(st, ast.Assign) and \
                    isinstance(st.targets[0], ast.Subscript) and \
                    isinstance(st.targets[0].slice, ast.Constant) and \
                    st.targets[0].slice.value == key:
                v = st.value.elts[0] if isinstance(st.value, ast.Tuple) \
                    else st.value
                stores[key] = v
    # the regular block  new[:nx, :ny] = data[::f, ::f]
    reg = None
    copies = []
    for st in body:
        if isinstance(st, ast.Assign) and \
                isinstance(st.targets[0], ast.Subscript) and \
                norm(st.targets[0].value) == arr and \
                isinstance(st.targets[0].slice, ast.Tuple) and \
                isinstance(st.value, ast.Subscript) and \
                isinstance(st.value.slice, ast.Tuple) and \
                len(st.targets[0].slice.elts) == 2 and \
                len(st.value.slice.elts) == 2:
            copies.append(st)
    nbad = []
    n = 0
    for cx, cy, f in ((10, 15, 5), (11, 14, 5), (5, 4, 5), (1, 1, 1),
                      (7, 9, 1), (64, 65, 64), (9, 10, 2)):
        env = {cxn: cx, cyn: cy, fpar: f}
        try:
            concrete.run(between, env)
            shape = concrete.ev(alloc[0].value.args[0], env)
            res = [concrete.ev(stores[k], env) for k in ("BN_RPX1",
                                                         "BN_RPX2")] \
                if len(stores) == 2 else None
            # extents of the regular block
            ext = None
            for st in copies:
                te = st.targets[0].slice.elts
                if all(isinstance(e, ast.Slice) for e in te):
                    ext = [concrete.ev(e.upper, env) for e in te]
        except concrete.Unknown as e:
            raise AnalysisError("C15-R9: node arithmetic: %s" % e)
        n += 1
        wx, wy = -(-cx // f), -(-cy // f)
        if ext != [wx, wy]:
            nbad.append("size %dx%d factor %d: %s regular nodes kept, "
                        "data[::f, ::f] has %s" % (cx, cy, f, ext, [wx, wy]))
        elif list(shape) != [wx + 1, wy + 1]:
            nbad.append("size %dx%d factor %d: node array %s, needs %s" %
                        (cx, cy, f, shape, [wx + 1, wy + 1]))
        elif res is not None and sorted(res) != sorted([cx % f, cy % f]):
            nbad.append("size %dx%d factor %d: residuals %s, size %% factor "
                        "is %s" % (cx, cy, f, res, [cx % f, cy % f]))
    ctx.check("C15-R9", comp, "node counts over %d sample sizes" % n,
              not nbad, nbad[0] if nbad else "", node=alloc[0])
    # -- what fills the node array -----------------------------------------
    ncp = 0
    for st in copies:
        te, se = st.targets[0].slice.elts, st.value.slice.elts
        ncp += 1
        probs = []
        for ax, (t_, s_) in enumerate(zip(te, se)):
            if isinstance(t_, ast.Slice):
                ok = isinstance(s_, ast.Slice) and s_.step is not None and \
                    norm(s_.step) == fpar and s_.lower is None and \
                    s_.upper is None and t_.lower is None and t_.step is None
            else:
                ok = norm(t_).replace(" ", "") == "-1" and \
                    norm(s_).replace(" ", "") == "-1"
            if not ok:
                probs.append("axis %d: %s <- %s" % (ax, norm(t_), norm(s_)))
        ctx.check("C15-R9", comp, "node copy " + norm(st, 70), not probs,
                  "regular nodes come from [::%s], the extra last node from "
                  "index -1, on the same axis of both arrays; found %s" %
                  (fpar, probs), node=st)
    ctx.floor("C15-R9", ncp, 4, "node copy statements of compress")
    # -- output file ---------------------------------------------------------
    for fi in (comp, exp):
        wr = [c for c in walk_no_nested(fi.node) if isinstance(c, ast.Call)
              and isinstance(c.func, ast.Attribute) and
              c.func.attr == "writeto"]
        pm = {}
        for x_ in ast.walk(fi.node):
            for ch in ast.iter_child_nodes(x_):
                pm[ch] = x_
        for c in wr:
            st = c
            guard = None
            while st in pm:
                st = pm[st]
                if isinstance(st, ast.If):
                    guard = st
                    break
            op = fi.params[-1] if "outfile" not in fi.params else "outfile"
            ok = guard is not None
            if ok:
                try:
                    ok = bool(concrete.ev(guard.test, {op: "x.fits"})) and \
                        not bool(concrete.ev(guard.test, {op: None}))
                except concrete.Unknown:
                    ok = False
            ow = kwarg(c, "overwrite")
            ctx.check("C15-R9", fi, "output written iff a name is given: " +
                      norm(c, 50), ok and isinstance(ow, ast.Constant) and
                      ow.value is True and c.args and norm(c.args[0]) == op,
                      "the file must be written (overwrite=True) exactly "
                      "when %s is not None" % op, node=c)
    # -- one HDU -------------------------------------------------------------
    ctx.rule("C15-R10", "compress and expand read and write ONE header-data "
             "unit: every constant index into the HDU list is the same "
             "(the primary HDU, 0)")
    nh = 0
    for fi in (comp, exp):
        idx = {}
        for x_ in walk_no_nested(fi.node):
            if isinstance(x_, ast.Subscript) and \
                    isinstance(x_.slice, ast.Constant) and \
                    isinstance(x_.slice.value, int) and \
                    isinstance(x_.value, ast.Name) and \
                    "hdu" in x_.value.id.lower():
                idx.setdefault(x_.slice.value, []).append(x_)
                nh += 1
        ctx.check("C15-R10", fi, "HDU indices used in %s: %s" %
                  (fi.name, sorted(idx)), set(idx) <= {0},
                  "header and data are taken from / stored into different "
                  "HDUs (%s)" % sorted(idx),
                  node=next(iter(idx.values()))[0] if idx else fi.node)
    ctx.floor("C15-R10", nh, 6, "HDU list subscripts")


def r6_written(ctx, prog):
    """the file written by compress / expand is the HDUList they return"""
    from ..cfg import CFG
    import networkx as nx
    ctx.rule("C15-R6", "the optional output file of compress / expand is "
             "written after the last modification of the data and header: "
             "no statement reachable from writeto() changes the header "
             "(stale BN_* keywords make the written file look compressed "
             "and it is expanded a second time on load) or the data")
    n = 0
    for short in ("fits_tools.compress", "fits_tools.expand"):
        fi = prog.func(short)
        g = CFG(fi.node)
        hdr = {"header"}
        for st in walk_no_nested(fi.node):
            if isinstance(st, ast.Assign) and isinstance(
                    st.targets[0], ast.Name) and norm(st.value).endswith(
                        (".header", ".data")):
                hdr.add(st.targets[0].id)
        writes = [st for st in walk_no_nested(fi.node)
                  if isinstance(st, ast.Expr) and
                  isinstance(st.value, ast.Call) and
                  isinstance(st.value.func, ast.Attribute) and
                  st.value.func.attr in ("writeto", "write_fits")]

        def mutates(st):
            tg = []
            if isinstance(st, ast.Assign):
                tg = st.targets
            elif isinstance(st, ast.AugAssign):
                tg = [st.target]
            elif isinstance(st, ast.Delete):
                tg = st.targets
            for t in tg:
                b = t
                while isinstance(b, ast.Subscript):
                    b = b.value
                if b is not t and isinstance(b, ast.Name) and b.id in hdr:
                    return True
                if isinstance(b, ast.Attribute) and b.attr in ("data",
                                                               "header"):
                    return True
            return False
        muts = [st for st in walk_no_nested(fi.node) if mutates(st)]
        for w in writes:
            n += 1
            after = set()
            for wn in g.nodes_for_stmt(w):
                after |= nx.descendants(g.g, wn)
            late = [m for m in muts
                    if set(g.nodes_for_stmt(m)) & after]
            ctx.check("C15-R6", fi, "nothing modified after " + norm(w, 50),
                      not late, "`%s` runs after the file has been written: "
                      "the file on disk differs from the returned HDUList "
                      "(e.g. it keeps the BN_* keywords although it holds "
                      "full-size data, so loading it expands it again)" %
                      (norm(late[0], 60) if late else ""),
                      node=late[0] if late else w)
    ctx.floor("C15-R6", n, 2, "output-file writes in compress / expand")


def r5_axes(ctx, prog, comp):
    """rows and columns of the decimated image are computed independently"""
    from ..core import param_deps
    ctx.rule("C15-R5", "axis separation in compress: the number of decimated "
             "rows depends on the number of image rows only and the number "
             "of decimated columns on the number of image columns only "
             "(data and control dependence) -- a residual test on the other "
             "axis makes the decimated array one too large / small whenever "
             "exactly one axis length is a multiple of the factor")

    def atom(x):
        if isinstance(x, ast.Subscript) and isinstance(x.value, ast.Attribute) \
                and x.value.attr == "shape" and \
                isinstance(x.slice, ast.Constant) and x.slice.value in (0, 1):
            return {"rows" if x.slice.value == 0 else "cols"}
        if isinstance(x, ast.Subscript) and isinstance(x.slice, ast.Constant) \
                and x.slice.value in ("NAXIS1", "NAXIS2"):
            return {"cols" if x.slice.value == "NAXIS1" else "rows"}
        return None
    envs = []
    param_deps(comp.node, atom=atom, control=True, envs=envs)
    if not envs:
        raise AnalysisError("C15-R5: compress has no return")
    ret, env = sorted(envs, key=lambda t: t[0].lineno)[-1]
    # the shape of the decimated array:  np.empty((A + 1, B + 1))
    shp = None
    for st in walk_no_nested(comp.node):
        if isinstance(st, ast.Assign) and isinstance(st.value, ast.Call) and \
                norm(st.value.func) in ("np.empty", "np.zeros", "numpy.empty",
                                        "numpy.zeros") and st.value.args and \
                isinstance(st.value.args[0], ast.Tuple) and \
                len(st.value.args[0].elts) == 2:
            shp = st.value.args[0].elts
    if shp is None:
        raise AnalysisError("C15-R5: decimated array allocation not found")
    n = 0
    for k, (e, own, other) in enumerate(((shp[0], "rows", "cols"),
                                         (shp[1], "cols", "rows"))):
        d = set()
        for nm in names_in(e):
            d |= env.get(nm, set())
        d &= {"rows", "cols"}
        n += 1
        ctx.check("C15-R5", comp, "decimated %s %s depend on %s" %
                  (own, norm(e), sorted(d)), d == {own},
                  "the number of decimated %s (%s) depends on %s; it must "
                  "depend on the image's %s only" % (own, norm(e), sorted(d),
                                                     own), node=ret)
    ctx.floor("C15-R5", n, 2, "axes of the decimated array")


def presence_rule(ctx, prog, rule):
    """is_compressed decides by the PRESENCE of the keywords: BN_RPX1/2 are
    legitimately 0 when an axis is a multiple of the factor (shared by
    C15-R1 and C20-R8)"""
    isc = prog.func("fits_tools.is_compressed")
    tests = [c for c in ast.walk(isc.node) if isinstance(c, ast.Compare) and
             len(c.ops) == 1 and isinstance(c.ops[0], ast.In)]
    truthy = [c for c in ast.walk(isc.node) if isinstance(c, ast.Call) and
              isinstance(c.func, ast.Attribute) and c.func.attr == "get"]
    subs = [c for c in ast.walk(isc.node) if isinstance(c, ast.Subscript)
            and norm(c.value) == isc.params[0]]
    ctx.check(rule, isc, "keys tested for presence (`in`)",
              len(tests) >= 1 and not truthy and not subs,
              "is_compressed must test that the keys are PRESENT; testing "
              "their truth value fails for the valid residual 0 (an axis "
              "that is an exact multiple of the factor), so such files are "
              "never expanded", node=isc.node)
