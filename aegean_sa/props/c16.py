"""C16 -- pixel<->sky conversion of positions, vectors, ellipses."""
from __future__ import annotations

import ast

from .. import unitrules
from ..core import AnalysisError, arg_or_kw, norm, walk_no_nested

EXPLANATION = (
    "Static analysis of AegeanTools/wcs_helpers.py (class WCSHelper). R1 "
    "(inverse-pair agreement): pix2sky, sky2pix and psf_sky2pix hand the "
    "same origin literal to astropy and apply mutually inverse (row,col) <-> "
    "(x=col,y=row) swaps; the abstract interpreter checks each body against "
    "its contract (pixel = (row, col) 1-based in, (lon, lat) degrees out "
    "and vice versa). R2: unit / kind abstract interpretation of the vector "
    "and ellipse transforms and their callers: translate/gcd/bear receive "
    "degrees, trig functions receive radians, np.degrees/np.radians are "
    "applied to values of the right unit, mixed deg/rad sums (pa - 90 vs "
    "theta - pi/2, cos(defect) vs cos(radians(defect))) are definite "
    "mismatches, returned values carry the contracted unit. R4: the psf "
    "look-ups return the contracted (width, width, angle) kinds on both the "
    "header-beam and the psf-map branch. R3: the great-circle distance, "
    "bearing and translation the transforms are built on are identically "
    "the reference spherical formulae (sympy canonical forms, every "
    "np.where selection branch; same engine as C17). Round-trip tolerances "
    "are not decided.")
ASSUMPTIONS = ["astropy WCS all_pix2world/all_world2pix semantics",
               "contracts table (aegean_sa/units.py)"]

MUTANTS = [
    ("pixel beam handed out with the sky position angle",
     "AegeanTools/wcs_helpers.py",
     "            return self._psf_a, self._psf_b, self._psf_theta\n\n        psf_sky",
     "            return self._psf_a, self._psf_b, self.beam.pa\n\n        psf_sky",
     "C16-R14"),
    ("vector angle read back with the wrong sign of dy",
     "AegeanTools/wcs_helpers.py",
     "        theta = np.degrees(np.arctan2((y_off - y), (x_off - x)))",
     "        theta = np.degrees(np.arctan2((y - y_off), (x_off - x)))",
     "C16-R13"),
    ("minor-axis bearing taken from the end point back to the centre",
     "AegeanTools/wcs_helpers.py",
     "        pa2 = bear(ra, dec, ra2, dec2) - 90",
     "        pa2 = bear(ra2, dec2, ra, dec) - 90", "C16-R12"),
    ("vector end point built in the caller's dtype", "AegeanTools/wcs_helpers.py",
     "        a = (x + r * np.cos(np.radians(theta)),\n"
     "             y + r * np.sin(np.radians(theta)))\n",
     "        a = np.array(pixel)\n"
     "        a[0] += r * np.cos(np.radians(theta))\n"
     "        a[1] += r * np.sin(np.radians(theta))\n", "C16-R11"),
    ("sky2pix without the distortion terms", "AegeanTools/wcs_helpers.py",
     "        pixel = self.wcs.all_world2pix(",
     "        pixel = self.wcs.wcs_world2pix(", "C16-R10"),
    ("pix2sky answers memoised in a mutable default argument",
     "AegeanTools/wcs_helpers.py",
     "    def pix2sky(self, pixel):\n",
     "    def pix2sky(self, pixel, _memo={}):\n"
     "        if tuple(pixel) in _memo:\n"
     "            return _memo[tuple(pixel)]\n"
     "        _memo[tuple(pixel)] = self.wcs.all_pix2world(\n"
     "            [[pixel[1], pixel[0]]], 1,\n"
     "            ra_dec_order=self.ra_dec_order)[0]\n", "C16-R9"),
    ("origin 0 in sky2pix", "AegeanTools/wcs_helpers.py",
     "pixel = self.wcs.all_world2pix(\n            [pos], 1, "
     "ra_dec_order=self.ra_dec_order)\n        # wcs and python have "
     "opposite ideas of x/y\n        return [pixel[0][1], pixel[0][0]]",
     "pixel = self.wcs.all_world2pix(\n            [pos], 0, "
     "ra_dec_order=self.ra_dec_order)\n        # wcs and python have "
     "opposite ideas of x/y\n        return [pixel[0][1], pixel[0][0]]",
     "C16-R"),
    ("no swap in sky2pix", "AegeanTools/wcs_helpers.py",
     "        return [pixel[0][1], pixel[0][0]]\n\n    def psf_sky2pix",
     "        return [pixel[0][0], pixel[0][1]]\n\n    def psf_sky2pix",
     "C16-R"),
    ("no swap in pix2sky", "AegeanTools/wcs_helpers.py",
     "self.wcs.all_pix2world([[y, x]], 1,", "self.wcs.all_pix2world([[x, y]]"
     ", 1,", "C16-R"),
    ("drop radians in pix2sky_ellipse", "AegeanTools/wcs_helpers.py",
     "v_sx = (x + sx * np.cos(np.radians(theta)),",
     "v_sx = (x + sx * np.cos(theta),", "C16-R2"),
    ("minor axis offset in radians", "AegeanTools/wcs_helpers.py",
     "x_off, y_off = self.sky2pix(translate(ra, dec, b, pa - 90))",
     "x_off, y_off = self.sky2pix(translate(ra, dec, b, pa - np.pi / 2))",
     "C16-R2"),
    ("cos of degrees", "AegeanTools/wcs_helpers.py",
     "minor *= abs(np.cos(np.radians(defect)))",
     "minor *= abs(np.cos(defect))", "C16-R2"),
    ("theta returned in radians", "AegeanTools/wcs_helpers.py",
     "return x, y, sx, sy, np.degrees(theta)", "return x, y, sx, sy, theta",
     "C16-R2"),
    ("pa2 offset in radians", "AegeanTools/wcs_helpers.py",
     "pa2 = bear(ra, dec, ra2, dec2) - 90",
     "pa2 = bear(ra, dec, ra2, dec2) - np.pi / 2", "C16-R2"),
    ("swapped translate args", "AegeanTools/wcs_helpers.py",
     "a = translate(ra, dec, r, pa)", "a = translate(dec, ra, r, pa)",
     "C16-R2"),
    ("gcd on swapped coords", "AegeanTools/wcs_helpers.py",
     "major = gcd(ra, dec, ra2, dec2)", "major = gcd(dec, ra, ra2, dec2)",
     "C16-R2"),
    ("axes swapped in the returned ellipse", "AegeanTools/wcs_helpers.py",
     "        return ra, dec, major, minor, pa",
     "        return ra, dec, minor, major, pa", "C16-R5"),
    ("second axis measured along the first", "AegeanTools/wcs_helpers.py",
     "        x_off, y_off = self.sky2pix(translate(ra, dec, b, pa - 90))",
     "        x_off, y_off = self.sky2pix(translate(ra, dec, a, pa - 90))", "C16-R5"),
    ("minor axis corrected with the sine", "AegeanTools/wcs_helpers.py",
     "        sy *= abs(np.cos(defect))", "        sy *= abs(np.sin(defect))", "C16-R7"),
    ("direction from a one-argument arctangent (seed C16d)",
     "AegeanTools/wcs_helpers.py",
     "np.degrees(np.arctan2((y_off - y), (x_off - x)))",
     "np.degrees(np.arctan((y_off - y) / (x_off - x)))", "C16-R8"),
]
TWINS = [
    ("explicit conversion factor", "AegeanTools/wcs_helpers.py",
     "minor *= abs(np.cos(np.radians(defect)))",
     "minor *= abs(np.cos(defect * np.pi / 180.0))"),
    ("degrees spelled out", "AegeanTools/wcs_helpers.py",
     "return x, y, sx, sy, np.degrees(theta)",
     "return x, y, sx, sy, theta * 180 / np.pi"),
    ("theta2 via degrees", "AegeanTools/wcs_helpers.py",
     "theta2 = np.arctan2((y_off - y), (x_off - x)) - np.pi / 2",
     "theta2 = np.radians(np.degrees(np.arctan2((y_off - y), (x_off - x))) "
     "- 90)"),
]


def run(ctx):
    prog = ctx.prog
    ci = prog.klass("wcs_helpers.WCSHelper")
    mod = prog.modules[ci.module]
    # ---------------------------------------------------------------- R1
    ctx.rule("C16-R1", "pix2sky / sky2pix / psf_sky2pix use one origin "
             "literal; both directions swap (row,col) <-> (x,y)")
    origins = {}
    for m in ("pix2sky", "sky2pix", "psf_sky2pix"):
        fi = ci.methods.get(m)
        if fi is None:
            raise AnalysisError("C16: WCSHelper.%s missing" % m)
        for c in walk_no_nested(fi.node):
            if isinstance(c, ast.Call) and isinstance(c.func, ast.Attribute) \
                    and c.func.attr in ("all_pix2world", "all_world2pix",
                                        "wcs_pix2world", "wcs_world2pix"):
                o = arg_or_kw(c, 1, "origin")
                origins[m] = prog.const_value(mod, o) if o is not None \
                    else None
    ctx.floor("C16-R1", len(origins), 3, "astropy conversion calls in the "
              "position methods")
    ctx.check("C16-R1", "wcs_helpers.WCSHelper", "origin literals %s" %
              origins, len(set(origins.values())) == 1 and
              None not in origins.values(),
              "the forward and inverse conversions use different origins: "
              "pix -> sky -> pix is off by one pixel", origins)
    # body-vs-contract checks of the three methods
    unitrules.apply(ctx, "C16-R1",
                    {"wcs_helpers.WCSHelper.pix2sky",
                     "wcs_helpers.WCSHelper.sky2pix",
                     "wcs_helpers.WCSHelper.psf_sky2pix"},
                    kinds={"return", "call", "sink"},
                    what="contract sites in pix2sky/sky2pix", floor=2)
    # ---------------------------------------------------------------- R2
    ctx.rule("C16-R2", "vector / ellipse transforms and psf look-ups: "
             "degrees into translate/gcd/bear, radians into trig, "
             "conversions applied to the right unit, no mixed deg/rad sums, "
             "returns carry the contracted units and width kinds")
    scope = lambda s: s.startswith("wcs_helpers.WCSHelper.") and \
        s.rsplit(".", 1)[1] not in ("pix2sky", "sky2pix", "psf_sky2pix")
    unitrules.apply(ctx, "C16-R2", scope,
                    kinds={"call", "return", "store", "sink"},
                    what="contract sites in the WCSHelper transforms",
                    floor=25)
    # ---------------------------------------------------------------- R3
    from .c17 import formulae
    formulae(ctx, prog, {"R1": "C16-R3", "R2": "C16-R3", "R3": "C16-R3"})
    # ---------------------------------------------------------------- R5
    r5_deps(ctx, ci)
    r13_plane_geometry(ctx, prog, ci)
    r14_pixel_beam(ctx, prog, ci)
    r7_defect(ctx, prog, ci)
    r8_quadrant(ctx, prog)
    r9_stateless(ctx, prog)
    r10_same_transformation(ctx, prog, ci)
    r11_float_offsets(ctx, prog)
    from .. import link as _link
    n12 = _link.argument_binding(ctx, "C16-R12", modules=["wcs_helpers"],
                                 what="wcs_helpers: start / end points of "
                                 "bear, gcd, translate and the pixel / sky "
                                 "pairs of the conversions")
    ctx.floor("C16-R12", n12, 10, "internal calls of wcs_helpers with "
              "resolved parameters")
    from .. import precision
    precision.rule(
        ctx, prog, "C16-R6",
        [lambda sh: sh.startswith("wcs_helpers.WCSHelper.") and
         not sh.endswith("from_header") and not sh.endswith("from_file")],
        "precision: pixel <-> sky conversions work in double precision "
        "(1e-6 pixel round trip)", "a dtype narrower than float64 is used",
        floor=10)
    # ---------------------------------------------------------------- R4
    ctx.rule("C16-R4", "psf look-ups: every return of get_psf_sky2sky / "
             "get_psf_sky2pix / get_psf_pix2pix yields (a, b, pa)")
    for m in ("get_psf_sky2sky", "get_psf_sky2pix", "get_psf_pix2pix"):
        fi = ci.methods.get(m)
        if fi is None:
            raise AnalysisError("C16: WCSHelper.%s missing" % m)
        rets = [s for s in walk_no_nested(fi.node)
                if isinstance(s, ast.Return)]
        for s in rets:
            v = s.value
            ok = (isinstance(v, ast.Tuple) and len(v.elts) == 3) or \
                isinstance(v, (ast.Name, ast.Call, ast.Subscript))
            if isinstance(v, ast.Tuple) and len(v.elts) == 3:
                names = [norm(e) for e in v.elts]
                ok = ("_a" in names[0] or names[0] == "a") and \
                    ("_b" in names[1] or names[1] == "b") and \
                    ("theta" in names[2] or "pa" in names[2])
            ctx.check("C16-R4", fi, "return " + norm(s, 70), ok,
                      "the psf triple must be (major, minor, angle) in this "
                      "order", node=s)


DEP_SPEC = {
    # method: (shape params, {return position: (must depend on, must NOT
    #                                          depend on)})
    "sky2pix_ellipse": (("a", "b", "pa"), {
        0: ((), ("a", "b", "pa")), 1: ((), ("a", "b", "pa")),
        2: (("a",), ("b",)), 3: (("b",), ()), 4: (("pa",), ("b",))}),
    "pix2sky_ellipse": (("sx", "sy", "theta"), {
        0: ((), ("sx", "sy", "theta")), 1: ((), ("sx", "sy", "theta")),
        2: (("sx",), ("sy",)), 3: (("sy",), ()), 4: (("theta",), ("sy",))}),
    "sky2pix_vec": (("r", "pa"), {
        0: ((), ("r", "pa")), 1: ((), ("r", "pa")),
        2: (("r",), ()), 3: (("pa",), ())}),
    "pix2sky_vec": (("r", "theta"), {
        0: ((), ("r", "theta")), 1: ((), ("r", "theta")),
        2: (("r",), ()), 3: (("theta",), ())}),
}


def r14_pixel_beam(ctx, prog, ci, rule="C16-R14"):
    """the constant pixel beam handed out without a psf map is the one
    __init__ converted from the header beam"""
    ctx.rule(rule, "the pixel-frame beam: without a psf map every accessor "
             "(get_psf_sky2pix, get_psf_pix2pix) returns the three "
             "attributes that __init__ stores from sky2pix_ellipse(reference "
             "position, BMAJ, BMIN, BPA), in that order -- in particular the "
             "pixel rotation angle, not the sky position angle of the header "
             "(the two differ by a mirror reflection for CDELT1 < 0)")
    init = ci.methods.get("__init__")
    stored = None
    for st in walk_no_nested(init.node):
        if isinstance(st, ast.Assign) and \
                isinstance(st.targets[0], ast.Tuple) and \
                isinstance(st.value, ast.Call) and \
                norm(st.value.func).split(".")[-1] == "sky2pix_ellipse":
            stored = [norm(e) for e in st.targets[0].elts[-3:]]
    if stored is None or not all(x.startswith("self.") for x in stored):
        raise AnalysisError("%s: pixel beam attributes of __init__" % rule)
    n = 0
    for m in ("get_psf_sky2pix", "get_psf_pix2pix"):
        fi = ci.methods.get(m)
        if fi is None:
            continue
        rets = [r for r in walk_no_nested(fi.node)
                if isinstance(r, ast.Return) and
                isinstance(r.value, ast.Tuple) and len(r.value.elts) == 3
                and all(isinstance(e, ast.Attribute) for e in r.value.elts)]
        for r in rets:
            n += 1
            got = [norm(e) for e in r.value.elts]
            ctx.check(rule, fi, "constant pixel beam returned by %s: %s" %
                      (m, got), got == stored,
                      "%s returns %s; __init__ stores the pixel beam as %s" %
                      (m, got, stored), node=r)
    ctx.floor(rule, n, 2, "constant pixel beam returns")


def r13_plane_geometry(ctx, prog, ci, rule="C16-R13"):
    """the pixel-plane halves of the vector / ellipse conversions are
    inverse to each other: an end point built from (length, angle) by the
    pixel -> sky direction is decomposed into the same (length, angle) by
    the sky -> pixel direction"""
    import math
    from .. import concrete
    from ..core import expand_locals
    ctx.rule(rule, "pixel-plane geometry: the end point pix2sky_vec / "
             "pix2sky_ellipse put at (length, angle) from a pixel -- "
             "(x + r cos t, y + r sin t), the minor axis a quarter turn "
             "on -- is read back by the formulae of sky2pix_vec / "
             "sky2pix_ellipse (hypot of the offsets, atan2(dy, dx)) as the "
             "same length and angle; both are interpreted over sample "
             "vectors in all four quadrants")

    def endpoint(fi, which):
        """the which-th offset point handed to self.pix2sky in fi, as
        (expr_x, expr_y)"""
        pts = []
        for c in walk_no_nested(fi.node):
            if isinstance(c, ast.Call) and norm(c.func) == "self.pix2sky" \
                    and c.args:
                a = c.args[0]
                if isinstance(a, ast.Name):
                    # the reaching definition: the last assignment to the
                    # name in front of the call
                    ds = [st for st in walk_no_nested(fi.node)
                          if isinstance(st, ast.Assign) and
                          len(st.targets) == 1 and
                          norm(st.targets[0]) == a.id and
                          st.lineno < c.lineno]
                    if ds:
                        a = max(ds, key=lambda st: st.lineno).value
                if isinstance(a, ast.Call) and a.args and \
                        norm(a.func).split(".")[-1] in ("array", "asarray"):
                    a = a.args[0]
                if isinstance(a, (ast.Tuple, ast.List)) and \
                        len(a.elts) == 2:
                    el_ = [expand_locals(fi.node, x) for x in a.elts]
                    if any(isinstance(x, ast.Call) for e_ in el_
                           for x in ast.walk(e_)):
                        pts.append(el_)
        return pts[which] if which < len(pts) else None

    def decomposition(fi, k_len, k_ang):
        """expressions of the returned length and angle"""
        rets = [r_ for r_ in walk_no_nested(fi.node)
                if isinstance(r_, ast.Return) and
                isinstance(r_.value, ast.Tuple)]
        if len(rets) != 1:
            return None
        e = rets[0].value.elts

        def reach(x):
            if isinstance(x, ast.Name):
                ds = [st for st in walk_no_nested(fi.node)
                      if isinstance(st, ast.Assign) and
                      len(st.targets) == 1 and
                      norm(st.targets[0]) == x.id and
                      st.lineno < rets[0].lineno]
                if ds:
                    return max(ds, key=lambda st: st.lineno).value
            return expand_locals(fi.node, x)
        return reach(e[k_len]), reach(e[k_ang])
    cases = (("pix2sky_vec", 0, "sky2pix_vec", 2, 3, ("r", "theta"), 0.0),
             ("pix2sky_ellipse", 0, "sky2pix_ellipse", 2, 4,
              ("sx", "theta"), 0.0))
    n = 0
    for fwd, which, inv, k_len, k_ang, (ln, an), turn in cases:
        f1, f2 = ci.methods.get(fwd), ci.methods.get(inv)
        if f1 is None or f2 is None:
            raise AnalysisError("%s: %s / %s" % (rule, fwd, inv))
        pt = endpoint(f1, which)
        dec = decomposition(f2, k_len, k_ang)
        if pt is None or dec is None:
            # (the index-type and dtype rules R2 / R11 still see this code)
            ctx.unknown_site(rule, f1, "end point of %s / return of %s not "
                             "written as (x + r cos t, y + r sin t): not "
                             "interpreted" % (fwd, inv), node=f1.node)
            continue
        bad = []
        for x, y, r, t in ((10.0, 20.0, 3.0, 30.0), (10.0, 20.0, 2.5, 120.0),
                           (7.5, 3.25, 4.0, -60.0), (7.5, 3.25, 1.5, -150.0),
                           (100.0, 50.0, 12.0, 90.0), (5.0, 5.0, 2.0, 0.0),
                           (5.0, 5.0, 2.0, 180.0)):
            env = {"x": x, "y": y, ln: r, an: t, "sy": r / 2.0,
                   "pixel": [x, y]}
            try:
                xo, yo = concrete.ev(pt[0], env), concrete.ev(pt[1], env)
                env2 = {"x": x, "y": y, "x_off": xo, "y_off": yo}
                # the inverse function names its own locals: bind the
                # offset point under every name it unpacks a sky2pix
                # result into
                for st in walk_no_nested(f2.node):
                    if isinstance(st, ast.Assign) and \
                            isinstance(st.targets[0], ast.Tuple) and \
                            len(st.targets[0].elts) == 2 and \
                            isinstance(st.value, ast.Call) and \
                            norm(st.value.func) == "self.sky2pix":
                        a_, b_ = (norm(e_) for e_ in st.targets[0].elts)
                        if (a_, b_) != ("x", "y") and a_ not in env2:
                            env2[a_], env2[b_] = xo, yo
                r2 = concrete.ev(dec[0], env2)
                t2 = concrete.ev(dec[1], env2)
            except concrete.Unknown as e:
                ctx.unknown_site(rule, f2, "%s / %s not interpreted (%s)" %
                                 (fwd, inv, e), node=f2.node)
                bad = None
                break
            n += 1
            if inv == "sky2pix_ellipse":
                t2 = math.degrees(t2) if abs(t2) <= 2 * math.pi + 1e-9 and \
                    "degrees" not in norm(dec[1]) else t2
            dt = (t2 - t + 180.0) % 360.0 - 180.0
            if abs(r2 - r) > 1e-9 * max(1.0, r) or abs(dt) > 1e-9:
                bad.append(((r, t), (r2, t2)))
        if bad is None:
            continue
        ctx.check(rule, f2, "%s reads back the end point of %s "
                  "(7 sample vectors)" % (inv, fwd), not bad,
                  "a vector of (length, angle) = %s placed by %s comes back "
                  "from the formulae of %s as %s" %
                  ((bad[0][0], fwd, inv, bad[0][1]) if bad
                   else ("", "", "", "")), node=f2.node)
    if n:
        ctx.floor(rule, n, 7, "sample vectors interpreted")


def r5_deps(ctx, ci):
    from ..core import param_deps
    ctx.rule("C16-R5", "which input each output of the vector / ellipse "
             "transforms may depend on: the centre on neither axis nor "
             "angle; the first axis out on the first axis in and NOT on the "
             "second; the second axis out on the second axis in; the angle "
             "out on the angle in and not on the second axis (flow-sensitive "
             "dependency analysis of the returned tuple)")
    n = 0
    for m, (shape, spec) in DEP_SPEC.items():
        fi = ci.methods.get(m)
        if fi is None:
            raise AnalysisError("C16-R5: WCSHelper.%s missing" % m)
        rets = param_deps(fi.node)
        if not rets:
            raise AnalysisError("C16-R5: no return in %s" % m)
        for rn, els in rets:
            if len(els) != len(spec):
                raise AnalysisError("C16-R5: %s returns %d values" %
                                    (m, len(els)))
            for k, (must, mustnot) in spec.items():
                d = els[k] & set(shape)
                n += 1
                miss = [x for x in must if x not in d]
                extra = [x for x in mustnot if x in d]
                ctx.check("C16-R5", fi, "%s: output %d depends on %s" %
                          (m, k, sorted(d)), not miss and not extra,
                          "output %d of %s %s%s" % (
                              k, m,
                              ("does not depend on %s; " % miss) if miss
                              else "",
                              ("depends on %s, which it must not" % extra)
                              if extra else ""), node=rn)
    ctx.floor("C16-R5", n, 16, "outputs of the vector / ellipse transforms")


def r7_defect(ctx, prog, ci):
    """the second axis is projected onto the perpendicular of the first"""
    import sympy as sp
    from .. import sym
    from ..core import as_update
    ctx.rule("C16-R7", "ellipse transforms: the two axis vectors are "
             "perpendicular on the sky but not necessarily in the pixel "
             "plane; both sky2pix_ellipse and pix2sky_ellipse scale the "
             "second axis by |cos(defect)|, defect = difference of the two "
             "direction angles (sibling agreement, symbolic)")
    n = 0
    for m in ("sky2pix_ellipse", "pix2sky_ellipse"):
        fi = ci.methods.get(m)
        if fi is None:
            raise AnalysisError("C16-R7: %s missing" % m)
        mod = prog.modules[fi.module]
        ups = []
        for st in walk_no_nested(fi.node):
            u = as_update(st)
            if u is not None and u[1] is ast.Mult and \
                    isinstance(st, (ast.AugAssign, ast.Assign)):
                ups.append(st)
        ok = False
        found = None
        for st in ups:
            val = st.value if isinstance(st, ast.AugAssign) else (
                st.value.right if norm(st.value.left) ==
                norm(st.targets[0]) else st.value.left)
            tr = sym.Translator(prog, mod, {}, free_symbols=True)
            try:
                e0 = tr.expr(val)
            except sym.Untranslatable:
                continue
            found = e0
            if not (isinstance(e0, sp.Abs) and isinstance(e0.args[0],
                                                          sp.cos)):
                continue
            arg = e0.args[0].args[0]
            # a named angle: look at its (single) definition
            for _ in range(3):
                if len(arg.free_symbols) == 1:
                    nm = str(next(iter(arg.free_symbols)))
                    d = [s_ for s_ in walk_no_nested(fi.node)
                         if isinstance(s_, ast.Assign) and
                         norm(s_.targets[0]) == nm]
                    if len(d) != 1:
                        break
                    try:
                        arg = arg.subs(sp.Symbol(nm, real=True),
                                       tr.expr(d[0].value))
                    except sym.Untranslatable:
                        break
            syms = sorted(arg.free_symbols, key=str)
            if len(syms) == 2:
                a_, b_ = syms
                swapped = arg.subs({a_: b_, b_: a_}, simultaneous=True)
                if sp.simplify(swapped + arg) == 0 and \
                        sp.simplify(arg) != 0:
                    ok = True
        n += 1
        ctx.check("C16-R7", fi, "second axis correction in %s: %s" %
                  (m, found), ok,
                  "the second axis must be multiplied by abs(cos(angle "
                  "between the mapped axis vectors minus 90 deg)); found %s: "
                  "the returned minor axis is wrong wherever the pixel grid "
                  "is not isotropic" % found,
                  node=ups[0] if ups else fi.node)
    ctx.floor("C16-R7", n, 2, "ellipse transforms")


def r8_quadrant(ctx, prog):
    ctx.rule("C16-R8", "angles are taken with the two-argument arctangent: "
             "in wcs_helpers and angle_tools no direction is computed as "
             "arctan(dy / dx) -- the quotient forgets the quadrant, so "
             "vectors pointing into the other half plane come back rotated "
             "by 180 degrees")
    n = 0
    for q, fi in sorted(prog.functions.items()):
        if not (fi.module.endswith("wcs_helpers") or
                fi.module.endswith("angle_tools")):
            continue
        mod = prog.modules[fi.module]
        for c in walk_no_nested(fi.node):
            if not isinstance(c, ast.Call):
                continue
            d = prog.dotted(mod, c.func) if isinstance(
                c.func, ast.Attribute) else prog.resolve_name(
                    mod, norm(c.func))
            if d in ("numpy.arctan2", "math.atan2"):
                n += 1
            if d in ("numpy.arctan", "math.atan") and c.args:
                n += 1
                a = c.args[0]
                quot = isinstance(a, ast.BinOp) and isinstance(a.op, ast.Div)
                if isinstance(a, ast.Name):
                    from .c08 import _resolve_local
                    r = _resolve_local(fi.node, a)
                    quot = isinstance(r, ast.BinOp) and \
                        isinstance(r.op, ast.Div)
                ctx.check("C16-R8", fi, "one-argument arctangent " +
                          norm(c, 60), not quot,
                          "%s takes the arctangent of a quotient: the "
                          "quadrant of (dx, dy) is lost" % norm(c, 60),
                          node=c)
    ctx.floor("C16-R8", n, 5, "arctangent calls in the geometry modules")


def r9_stateless(ctx, prog):
    from ..core import shared_state
    ctx.rule("C16-R9", "the conversions are functions of the helper's own "
             "WCS and their arguments: no method of WCSHelper (and no "
             "function of wcs_helpers / angle_tools) memoises results or "
             "keeps them in a container shared between instances or calls")
    n = 0
    for q, fi in sorted(prog.functions.items()):
        if not (fi.module.endswith("wcs_helpers") or
                fi.module.endswith("angle_tools")):
            continue
        n += 1
        st = shared_state(prog, fi)
        ctx.check("C16-R9", fi, "%s keeps no shared state" % fi.short,
                  not st, "%s: an answer computed for one image (one WCS) is "
                  "handed out again for the same pixel / position of "
                  "another image" % "; ".join(d for _, d in st[:3]),
                  node=st[0][0] if st else fi.node)
    ctx.floor("C16-R9", n, 20, "functions of the conversion modules")


def r10_same_transformation(ctx, prog, ci, rule="C16-R10"):
    ctx.rule(rule, "pixel -> sky and sky -> pixel are the SAME "
             "transformation: on each WCS object the forward and the inverse "
             "call belong to one astropy family -- all_pix2world with "
             "all_world2pix (core + distortions) or wcs_pix2world with "
             "wcs_world2pix (core only); mixing them is an inverse pair only "
             "for headers without SIP / look-up distortions")
    fam = {}
    for m, fi in ci.methods.items():
        for c in walk_no_nested(fi.node):
            if isinstance(c, ast.Call) and isinstance(c.func, ast.Attribute) \
                    and c.func.attr.endswith(("pix2world", "world2pix")) \
                    and "_" in c.func.attr:
                obj = norm(c.func.value)
                pre, op = c.func.attr.split("_", 1)
                fam.setdefault(obj, []).append((pre, op, fi, c))
    n = 0
    main = fam.get("self.wcs", [])
    ctx.floor(rule, len(main), 2, "astropy transformations on self.wcs")
    allsites = [x for v in fam.values() for x in v]
    pres = sorted({x[0] for x in allsites})
    for pre, op, fi, c in allsites:
        n += 1
        ctx.check(rule, fi, "family of " + norm(c.func), len(pres) == 1,
                  "WCSHelper mixes the astropy families %s: %s here, while "
                  "%s elsewhere -- for an image with distortion terms "
                  "pix2sky and sky2pix are no longer inverse of each other" %
                  (pres, c.func.attr, sorted({"%s_%s" % (a, b) for a, b, _, _
                                              in allsites} - {c.func.attr})),
                  node=c)


def r11_float_offsets(ctx, prog):
    from ..precision import inplace_on_inherited_dtype
    ctx.rule("C16-R11", "vector / ellipse end points are computed in floating "
             "point whatever the type of the pixel position given: no "
             "in-place arithmetic on an array that inherits its dtype from "
             "an argument (np.array(pixel); end[0] += r*cos(t) truncates for "
             "integer pixel positions)")
    n = 0
    for q, fi in sorted(prog.functions.items()):
        if not (fi.module.endswith("wcs_helpers") or
                fi.module.endswith("angle_tools")):
            continue
        n += 1
        bad = inplace_on_inherited_dtype(prog, fi)
        ctx.check("C16-R11", fi, "floating-point offsets in " + fi.short,
                  not bad, bad[0][1] if bad else "",
                  node=bad[0][0] if bad else fi.node)
    ctx.floor("C16-R11", n, 20, "functions of the conversion modules")
