"""C17 -- spherical geometry and sexagesimal primitives."""
from __future__ import annotations

import ast

import sympy as sp

from .. import sym
from ..core import AnalysisError, kwarg, names_in, norm, walk_no_nested

EXPLANATION = (
    "Static analysis of AegeanTools/angle_tools.py. R1-R3: gcd, bear and "
    "translate are value-numbered into sympy expressions (np.radians(x) = "
    "x*pi/180 etc.) and compared with the reference spherical formulae by "
    "canonical form: the haversine argument h satisfies 1-2h == sin d1 sin d2 "
    "+ cos d1 cos d2 cos dRA and is symmetric under swapping the points, the "
    "result is (360/pi)*asin(min(1, sqrt(h))); bear's (y, x) are the standard "
    "position-angle pair; translate's sin(dec') and atan2 pair are the "
    "destination-point formulae. Identities are over the reals. R4: a "
    "seconds/minutes field printed with a fixed number of decimals must be "
    "derived from a total that was quantised (round) before it was split, or "
    "the code must handle the carry explicitly -- otherwise a remainder in "
    "[59.995, 60) prints as 60.00. R5: parse/format agreement (separators, "
    "sign of -00, hours*15). Floating-point agreement to 1e-9 deg near 0/180 "
    "deg is not decided.")
ASSUMPTIONS = ["numpy trigonometric ufuncs compute their mathematical "
               "functions", "str.format rounds half-to-even to the printed "
               "number of decimals"]

D2R = sp.pi / 180


MUTANTS = [
    ("sign of the parsed angle read from the unsplit string",
     "AegeanTools/angle_tools.py",
     "    if d[0].startswith('-') or float(d[0]) < 0:",
     "    if dec.startswith('-') or float(d[0]) < 0:", "C17-R5"),
    ("seconds printed in the wrong unit", "AegeanTools/angle_tools.py",
     "    return '{0}{1:02d}:{2:02d}:{3:05.2f}'.format(sign, d, m, s / 100.0)",
     "    return '{0}{1:02d}:{2:02d}:{3:05.2f}'.format(sign, d, m, s / 10.0)",
     "C17-R12"),
    ("minutes of time split with the wrong unit", "AegeanTools/angle_tools.py",
     "    h, rem = divmod(total, 3600 * 100)\n    m, s = divmod(rem, 60 * 100)\n"
     "    # RA is periodic",
     "    h, rem = divmod(total, 3600 * 100)\n    m, s = divmod(rem, 60 * 10)\n"
     "    # RA is periodic", "C17-R12"),
    ("clamp decided for the array as a whole", "AegeanTools/angle_tools.py",
     "    factor = np.clip(factor, -1, 1)\n",
     "    if np.any(np.abs(factor) >= 1):\n        factor = np.sign(factor)\n"
     "    factor = np.clip(factor, -1, 1)\n", "C17-R11"),
    ("arcsin of the unclamped sum", "AegeanTools/angle_tools.py",
     "    factor = np.clip(factor, -1, 1)\n", "", "C17-R10"),
    ("RA seconds carried in milliseconds, printed with two decimals",
     "AegeanTools/angle_tools.py",
     "    total = int(round(x * 3600 * 100))\n"
     "    h, rem = divmod(total, 3600 * 100)\n"
     "    m, s = divmod(rem, 60 * 100)\n"
     "    # RA is periodic: 24h == 0h\n"
     "    h %= 24\n"
     "    return '{0:02d}:{1:02d}:{2:05.2f}'.format(h, m, s / 100.0)",
     "    total = int(round(x * 3600 * 1000))\n"
     "    h, rem = divmod(total, 3600 * 1000)\n"
     "    m, s = divmod(rem, 60 * 1000)\n"
     "    # RA is periodic: 24h == 0h\n"
     "    h %= 24\n"
     "    return '{0:02d}:{1:02d}:{2:05.2f}'.format(h, m, s / 1000.0)",
     "C17-R4"),
    ("declination formatter rejects the poles", "AegeanTools/angle_tools.py",
     "    if not np.isfinite(x):\n        return 'XX:XX:XX.XX'\n    if x < 0:",
     "    if not -90 < x < 90:\n        return 'XX:XX:XX.XX'\n    if x < 0:",
     "C17-R9"),
    ("translated RA snapped to 0 near 360", "AegeanTools/angle_tools.py",
     "    ra_out = ra + np.degrees(np.arctan2(y, x))\n",
     "    ra_out = (ra + np.degrees(np.arctan2(y, x))) % 360\n"
     "    if np.isclose(ra_out, 360):\n        ra_out = 0.\n", "C17-R3"),
    ("haversine cos term", "AegeanTools/angle_tools.py",
     "    a += np.cos(np.radians(dec1)) \\\n        * np.cos(np.radians(dec2"
     ")) \\", "    a += np.cos(np.radians(dec1)) \\\n        * np.cos("
     "np.radians(dec1)) \\", "C17-R1"),
    ("distance not doubled", "AegeanTools/angle_tools.py",
     "sep = np.degrees(2 * np.arcsin(np.minimum(1, np.sqrt(a))))",
     "sep = np.degrees(np.arcsin(np.minimum(1, np.sqrt(a))))", "C17-R1"),
    ("no clamp", "AegeanTools/angle_tools.py",
     "sep = np.degrees(2 * np.arcsin(np.minimum(1, np.sqrt(a))))",
     "sep = np.degrees(2 * np.arcsin(np.sqrt(a)))", "C17-R1"),
    ("bearing swapped atan2", "AegeanTools/angle_tools.py",
     "    return np.degrees(np.arctan2(y, x))\n\n\ndef translate",
     "    return np.degrees(np.arctan2(x, y))\n\n\ndef translate", "C17-R2"),
    ("bearing uses dec1", "AegeanTools/angle_tools.py",
     "    y = np.sin(rdlon) * np.cos(rdec2)\n",
     "    y = np.sin(rdlon) * np.cos(rdec1)\n", "C17-R2"),
    ("bearing wrap slip", "AegeanTools/angle_tools.py",
     "    rdlon = np.radians(ra2-ra1)\n",
     "    rdlon = np.radians(ra2-ra1)\n    rdlon = np.where(rdlon < -np.pi, "
     "rdlon + np.pi, rdlon)\n", "C17-R2"),
    ("translate sine for cosine", "AegeanTools/angle_tools.py",
     "            * np.sin(np.radians(r)) \\\n            * np.cos("
     "np.radians(theta))",
     "            * np.sin(np.radians(r)) \\\n            * np.sin("
     "np.radians(theta))", "C17-R3"),
    ("translate in degrees", "AegeanTools/angle_tools.py",
     "    x = np.cos(np.radians(r)) - np.sin(np.radians(dec)) \\\n"
     "        * np.sin(np.radians(dec_out))",
     "    x = np.cos(np.radians(r)) - np.sin(np.radians(dec)) \\\n"
     "        * np.sin(dec_out)", "C17-R3"),
    ("seconds not quantised", "AegeanTools/angle_tools.py",
     "    total = int(round(abs(x) * 3600 * 100))\n",
     "    total = int(abs(x) * 3600 * 100)\n", "C17-R4"),
    ("hours wrapped before rounding", "AegeanTools/angle_tools.py",
     "    # RA is periodic: 24h == 0h\n    h %= 24\n", "", "C17-R4"),
    ("ra2dec factor", "AegeanTools/angle_tools.py",
     "    return dec2dec(ra)*15", "    return dec2dec(ra)*24", "C17-R5"),
    ("sign from float", "AegeanTools/angle_tools.py",
     "    if d[0].startswith('-') or float(d[0]) < 0:",
     "    if float(d[0]) < 0:", "C17-R5"),
    ("versine by 1 - cos (seed C17b)", "AegeanTools/angle_tools.py",
     "        * np.sin(np.radians(dlon) / 2) ** 2",
     "        * (1 - np.cos(np.radians(dlon))) / 2", "C17-R6"),
    ("translate adds the offset into the caller's array (seed C17c)",
     "AegeanTools/angle_tools.py",
     "    ra_out = ra + np.degrees(np.arctan2(y, x))",
     "    ra_out = np.asarray(ra, dtype=float)\n    ra_out += np.degrees(np.arctan2(y, x))", "C17-R7"),
    ("rounded to two decimals, then scaled (seed C17d)",
     "AegeanTools/angle_tools.py",
     "    total = int(round(abs(x) * 3600 * 100))\n",
     "    total = int(round(abs(x) * 3600, 2) * 100)\n", "C17-R4"),
]
TWINS = [
    ("haversine with explicit conversion", "AegeanTools/angle_tools.py",
     "    a = np.sin(np.radians(dlat) / 2) ** 2\n",
     "    a = np.sin(dlat * np.pi / 360) ** 2\n"),
    ("translate accumulates into a fresh array", "AegeanTools/angle_tools.py",
     "    ra_out = ra + np.degrees(np.arctan2(y, x))",
     "    ra_out = np.degrees(np.arctan2(y, x))\n    ra_out += ra"),
]



def find_func(e, name):
    out = []
    for a in sp.preorder_traversal(e):
        if isinstance(a, sp.Function) and a.func.__name__ == name:
            out.append(a)
    return out


def run(ctx):
    prog = ctx.prog
    mod = prog.module("angle_tools")
    r10_domain(ctx, prog)
    r11_elementwise(ctx, prog)
    r12_formatters(ctx, prog, "C17-R12")
    formulae(ctx, prog, {"R1": "C17-R1", "R2": "C17-R2", "R3": "C17-R3",
                         "R6": "C17-R6"})
    sexagesimal(ctx, prog, mod)
    placeholder_rule(ctx, prog, "C17-R9")
    from .. import precision
    precision.rule(
        ctx, prog, "C17-R8", [lambda sh: sh.startswith("angle_tools.")],
        "precision: the spherical primitives compute in double precision "
        "(agreement to 1e-9 deg is impossible in float32)",
        "a dtype narrower than float64 is used", floor=8)
    r7_purity(ctx, prog, "C17-R7", ("gcd", "bear", "translate", "dist_rhumb",
                                    "bear_rhumb", "translate_rhumb"))


def r12_formatters(ctx, prog, rule="C17-R12"):
    """dec2dms / dec2hms interpreted over sample angles and compared with a
    reference decomposition written here (integer arithmetic on hundredths
    of a second)"""
    from .. import concrete
    ctx.rule(rule, "the formatters, interpreted over sample angles (values "
             "that round up into the next minute / degree / hour, negative "
             "fractions of a degree, RA just below 360, negative RA), print "
             "exactly the reference string [+-]DD:MM:SS.SS / HH:MM:SS.SS: "
             "sign, field split, carry and the wrap of the hours")

    def ref_dms(x):
        sign = "-" if x < 0 else "+"
        tot = int(round(abs(x) * 360000))
        return "%s%02d:%02d:%05.2f" % (sign, tot // 360000,
                                       tot % 360000 // 6000,
                                       tot % 6000 / 100.0)

    def ref_hms(x):
        if x < 0:
            x += 360
        tot = int(round(x / 15.0 * 360000))
        return "%02d:%02d:%05.2f" % (tot // 360000 % 24,
                                     tot % 360000 // 6000,
                                     tot % 6000 / 100.0)
    cases = (("dec2dms", ref_dms, [0.0, 0.5, -0.5, -0.0001, 12.5824166667,
                                   45.25, 10.9999999999, 89.99999999,
                                   -89.99999999, 59.999998611, 90.0, -90.0,
                                   -12.0041666667]),
             ("dec2hms", ref_hms, [0.0, 15.0, 180.0, 359.99999999, 359.9979,
                                   14.99999999, 202.4843333, -15.0, -0.5,
                                   0.004166, 123.456789]))
    n = 0
    for name, ref, xs in cases:
        fi = prog.func("angle_tools." + name)
        par = fi.params[0]
        bad = []
        for x in xs:
            try:
                out, _ = concrete.call(fi.node, {par: x})
            except concrete.Unknown as e:
                raise AnalysisError("%s: cannot interpret %s: %s" %
                                    (rule, name, e))
            n += 1
            if out != ref(x):
                bad.append((x, out, ref(x)))
        ctx.check(rule, fi, "%s over %d sample angles" % (name, len(xs)),
                  not bad, "%s(%r) gives %r, the reference string is %r" %
                  ((name,) + (bad[0] if bad else ("", "", ""))),
                  node=fi.node)
    ctx.floor(rule, n, 20, "sample angles interpreted")


def r11_elementwise(ctx, prog, rule="C17-R11"):
    """scalar and array arguments give the same answers: no decision is
    taken for an array as a whole"""
    ctx.rule(rule, "scalar and array arguments agree: the formula functions "
             "of angle_tools take no branch on a reduction of their data "
             "(`if np.any(cond): x = f(x)` rewrites EVERY element when one "
             "satisfies cond; the element-wise forms are np.where / np.clip "
             "/ boolean-mask stores)")
    mod = prog.module("angle_tools")
    n = 0
    for name in ("gcd", "bear", "translate", "dist_rhumb", "bear_rhumb",
                 "translate_rhumb"):
        if not prog.has_func("angle_tools." + name):
            continue
        fi = prog.func("angle_tools." + name)
        n += 1
        tainted = set(fi.params)
        for _ in range(4):
            for st in walk_no_nested(fi.node):
                if isinstance(st, (ast.Assign, ast.AugAssign)) and \
                        names_in(st.value) & tainted:
                    for t in (st.targets if isinstance(st, ast.Assign)
                              else [st.target]):
                        tainted |= names_in(t)
        bad = []
        for st in walk_no_nested(fi.node):
            if not isinstance(st, (ast.If, ast.While)):
                continue
            red = [c for c in ast.walk(st.test) if isinstance(c, ast.Call) and
                   norm(c.func).split(".")[-1] in ("any", "all", "max", "min",
                                                   "sum", "amax", "amin",
                                                   "nanmax", "nanmin") and
                   names_in(c) & tainted]
            if red and any(isinstance(b, (ast.Assign, ast.AugAssign))
                           for b in ast.walk(st)):
                bad.append((st, red[0]))
        ctx.check(rule, fi, "no whole-array decision in " + name, not bad,
                  "`%s` decides from %s for the array as a whole and then "
                  "rebinds values: for array arguments every element is "
                  "changed when one qualifies, so the array call disagrees "
                  "with the scalar calls" %
                  ((norm(bad[0][0].test, 50), norm(bad[0][1], 40))
                   if bad else ("", "")),
                  node=bad[0][0] if bad else fi.node)
    ctx.floor(rule, n, 3, "formula functions")


def r10_domain(ctx, prog, rule="C17-R10"):
    """arcsin / arccos are applied to clamped arguments"""
    from ..core import expand_locals
    ctx.rule(rule, "inverse trigonometric functions stay in their domain: "
             "every arcsin / arccos of angle_tools is applied to an argument "
             "clamped to [-1, 1] (np.clip(e, -1, 1), np.minimum(1, <non-"
             "negative>), ...): a sum of sine / cosine products that is 1 "
             "mathematically (end point on a pole, antipodal points) comes "
             "out as 1.0000000000000002 and arcsin returns NaN")
    mod = prog.module("angle_tools")
    n = 0
    for q, fi in sorted(prog.functions.items()):
        if fi.module != mod.name:
            continue
        for c in walk_no_nested(fi.node):
            if not (isinstance(c, ast.Call) and
                    prog.dotted(mod, c.func) in ("numpy.arcsin",
                                                 "numpy.arccos",
                                                 "math.asin", "math.acos")
                    and c.args):
                continue
            n += 1
            a = c.args[0]
            # the reaching value: the last assignment to the name before
            # the call, in-place updates after it spoil the clamp
            if isinstance(a, ast.Name):
                later = [st for st in walk_no_nested(fi.node)
                         if isinstance(st, (ast.Assign, ast.AugAssign)) and
                         st.lineno < c.lineno and any(
                             isinstance(t, ast.Name) and t.id == a.id
                             for t in (st.targets if isinstance(
                                 st, ast.Assign) else [st.target]))]
                a = later[-1].value if later and isinstance(
                    later[-1], ast.Assign) else a
                if later and isinstance(later[-1], ast.AugAssign):
                    a = later[-1]

            def lim(e, which):
                return isinstance(e, (ast.Constant, ast.UnaryOp)) and \
                    norm(e).replace(" ", "") in (("1", "1.0") if which > 0
                                                 else ("-1", "-1.0"))

            def nonneg(e):
                return isinstance(e, ast.Call) and \
                    norm(e.func).split(".")[-1] in ("sqrt", "abs", "fabs",
                                                    "hypot")

            def clamped(e):
                if not isinstance(e, ast.Call):
                    return False
                fn = norm(e.func).split(".")[-1]
                if fn == "clip" and len(e.args) == 3:
                    return lim(e.args[1], -1) and lim(e.args[2], +1)
                if fn in ("minimum", "min", "fmin") and len(e.args) == 2:
                    other = [x for x in e.args if not lim(x, +1)]
                    if len(other) == 1:
                        o = other[0]
                        return nonneg(o) or (
                            isinstance(o, ast.Call) and
                            norm(o.func).split(".")[-1] in (
                                "maximum", "max", "fmax") and
                            any(lim(x, -1) for x in o.args))
                if fn in ("maximum", "max", "fmax") and len(e.args) == 2:
                    other = [x for x in e.args if not lim(x, -1)]
                    return len(other) == 1 and isinstance(
                        other[0], ast.Call) and \
                        norm(other[0].func).split(".")[-1] in (
                            "minimum", "min", "fmin") and \
                        any(lim(x, +1) for x in other[0].args)
                return False
            ctx.check(rule, fi, "domain of %s" % norm(c, 60),
                      isinstance(a, ast.expr) and clamped(a),
                      "the argument %s is a rounded sum of products: it can "
                      "exceed 1 in magnitude by one unit in the last place "
                      "(e.g. translate(10, 82, 8, 0): the end point is the "
                      "pole, the sum is 1.0000000000000002) and the result "
                      "is NaN" % norm(a, 60), node=c)
    ctx.floor(rule, n, 2, "arcsin / arccos calls in angle_tools")


def _snapped(fi):
    """`if <test>: name = <constant>` statements of a formula function"""
    return [st for st in walk_no_nested(fi.node) if isinstance(st, ast.If)
            and len(st.body) == 1 and isinstance(st.body[0], ast.Assign)
            and isinstance(st.body[0].value, ast.Constant)
            and isinstance(st.body[0].value.value, (int, float))
            and not st.orelse]


def formulae(ctx, prog, R):
    """gcd / bear / translate against the reference spherical formulae
    (shared with C16-R3)"""
    mod = prog.module("angle_tools")
    ra1, d1, ra2, d2 = sp.symbols("ra1 dec1 ra2 dec2", real=True)
    # ---------------------------------------------------------------- R1
    ctx.rule(R["R1"], "gcd == (360/pi) asin(min(1, sqrt(h))) with "
             "1-2h == sin(d1)sin(d2)+cos(d1)cos(d2)cos(ra2-ra1), symmetric")
    fi = prog.func("angle_tools.gcd")
    try:
        E = sym.inline(prog, fi, [ra1, d1, ra2, d2])
    except sym.Untranslatable as e:
        raise AnalysisError("C17-R1: %s" % e)
    mins = find_func(E, "minimum")
    asins = [a for a in sp.preorder_traversal(E) if isinstance(a, sp.asin)]
    shape = len(mins) == 1 and len(asins) == 1 and \
        sp.simplify(E / asins[0] - 360 / sp.pi) == 0 and \
        asins[0].args[0] == mins[0]
    ctx.check(R["R1"], fi, "outer form of the distance", shape,
              "expected degrees(2*arcsin(min(1, sqrt(h)))); found %s" % E,
              node=fi.node)
    if mins:
        args = list(mins[0].args)
        one = [a for a in args if a == 1]
        rest = [a for a in args if a != 1]
        if len(one) == 1 and len(rest) == 1:
            h = sp.expand(rest[0] ** 2)
            ref = sp.sin(d1 * D2R) * sp.sin(d2 * D2R) + \
                sp.cos(d1 * D2R) * sp.cos(d2 * D2R) * \
                sp.cos((ra2 - ra1) * D2R)
            ok = _half_angle_zero(1 - 2 * h - ref, [ra1, d1, ra2, d2])
            ctx.check(R["R1"], fi, "haversine identity 1-2h == cos(sep)",
                      ok, "the haversine term is not the half-versed sine of "
                      "the great-circle separation", {"h": str(h)}, fi.node)
            hs = h.subs({ra1: ra2, d1: d2, ra2: ra1, d2: d1},
                        simultaneous=True)
            ctx.check(R["R1"], fi, "symmetry under swapping the points",
                      _half_angle_zero(h - hs, [ra1, d1, ra2, d2]),
                      "gcd(p1,p2) != gcd(p2,p1)", node=fi.node)
        else:
            ctx.check(R["R1"], fi, "clamp min(1, sqrt(h))", False,
                      "clamp arguments %s" % args, node=fi.node)
    if R.get("R6"):
        ctx.rule(R["R6"], "conditioning near zero separation: in the "
                 "distance formula no sum involving a trigonometric term "
                 "cancels to zero at coincident points while its terms do "
                 "not (1 - cos x loses all digits for small x; the half-"
                 "angle sine form does not), and no arccos is taken (its "
                 "argument tends to 1)")
        same = {ra2: ra1, d2: d1}
        n6 = 0
        bad = []
        for node in sp.preorder_traversal(E):
            if isinstance(node, sp.acos):
                bad.append("arccos(%s)" % (node.args[0],))
            if isinstance(node, sp.Add) and node.has(sp.sin, sp.cos, sp.tan):
                n6 += 1
                terms = [t.subs(same) for t in node.args]
                try:
                    tot = sp.simplify(sum(terms))
                    nz = [t for t in terms if sp.simplify(t) != 0]
                except (TypeError, ValueError):
                    continue
                if tot == 0 and nz:
                    bad.append(str(node))
        ctx.check(R["R6"], fi, "no cancelling sum in the distance formula "
                  "(%d sums examined)" % n6, not bad,
                  "catastrophic cancellation for nearly coincident points: "
                  "%s evaluates to the difference of nearly equal numbers; "
                  "separations below ~1e-4 deg lose accuracy and distinct "
                  "points closer than ~1e-6 deg get distance 0" % bad,
                  node=fi.node)
        ctx.floor(R["R6"], n6, 1, "sums with trigonometric terms in gcd")
    # ---------------------------------------------------------------- R2
    ctx.rule(R["R2"], "bear == degrees(atan2(sin dRA cos d2, cos d1 sin d2 "
             "- sin d1 cos d2 cos dRA))")
    fi = prog.func("angle_tools.bear")
    try:
        cases = sym.inline_cases(prog, fi, [ra1, d1, ra2, d2])
    except sym.Untranslatable as e:
        raise AnalysisError("C17-R2: %s" % e)
    for combo, E in cases:
        tag = "" if len(cases) == 1 else " [selection branch %s]" % (combo,)
        at = find_func(E, "atan2")
        okf = len(at) == 1 and sp.simplify(E / at[0] - 180 / sp.pi) == 0
        ctx.check(R["R2"], fi, "outer form degrees(atan2(y, x))" + tag, okf,
                  "found %s" % E, node=fi.node)
        if at:
            y, x = at[0].args
            dl = (ra2 - ra1) * D2R
            yr = sp.sin(dl) * sp.cos(d2 * D2R)
            xr = sp.cos(d1 * D2R) * sp.sin(d2 * D2R) - \
                sp.sin(d1 * D2R) * sp.cos(d2 * D2R) * sp.cos(dl)
            ctx.check(R["R2"], fi, "atan2 numerator" + tag,
                      sym.is_zero(y - yr),
                      "y = %s, expected sin(dRA) cos(dec2)" % y,
                      node=fi.node)
            ctx.check(R["R2"], fi, "atan2 denominator" + tag,
                      sym.is_zero(x - xr),
                      "x = %s, expected cos(d1) sin(d2) - sin(d1) cos(d2) "
                      "cos(dRA)" % x, node=fi.node)
    # ---------------------------------------------------------------- R3
    ctx.rule(R["R3"], "translate: sin(dec') == sin d cos r + cos d sin r "
             "cos t; ra' == ra + degrees(atan2(sin t sin r cos d, cos r - "
             "sin d sin dec'))")
    fi = prog.func("angle_tools.translate")
    ra, dec, r, t = sp.symbols("ra dec r theta", real=True)
    snaps = _snapped(fi)
    for st in snaps:
        ctx.check(R["R3"], fi, "no computed value replaced by a constant: " +
                  norm(st, 50), False,
                  "under `%s` the computed coordinate is replaced by the "
                  "constant %s: with a tolerance test (np.isclose has "
                  "rtol=1e-5, i.e. 13 arcsec at 360 deg) every end point in "
                  "that strip is moved, so lengths and angles of vectors "
                  "ending there are wrong" %
                  (norm(st.test, 40), norm(st.body[0].value)), node=st)
    if snaps:
        return
    try:
        E = sym.inline(prog, fi, [ra, dec, r, t])
    except sym.Untranslatable as e:
        raise AnalysisError("%s: %s" % (R["R3"], e))
    if not (isinstance(E, tuple) and len(E) == 2):
        raise AnalysisError("C17-R3: translate does not return a pair")
    # a clamp to [-1, 1] of a quantity that is a sine mathematically is the
    # identity in exact arithmetic (it only absorbs rounding, see R10)
    _clip = sp.Function("clip")
    E = tuple(e.replace(lambda x: isinstance(x, sp.Function) and
                        x.func.__name__ == "clip" and len(x.args) == 3 and
                        x.args[1] == -1 and x.args[2] == 1,
                        lambda x: x.args[0]) for e in E)
    ra_out, dec_out = E
    asn = [a for a in sp.preorder_traversal(dec_out)
           if isinstance(a, sp.asin)]
    F = sp.sin(dec * D2R) * sp.cos(r * D2R) + \
        sp.cos(dec * D2R) * sp.sin(r * D2R) * sp.cos(t * D2R)
    okd = len(asn) == 1 and \
        sp.simplify(dec_out / asn[0] - 180 / sp.pi) == 0 and \
        sym.is_zero(asn[0].args[0] - F)
    ctx.check(R["R3"], fi, "destination declination", okd,
              "dec' = %s" % dec_out, node=fi.node)
    at = find_func(ra_out, "atan2")
    oka = len(at) == 1 and sp.simplify((ra_out - ra) / at[0] - 180 / sp.pi) \
        == 0
    ctx.check(R["R3"], fi, "outer form ra + degrees(atan2(y, x))", oka,
              "ra' = %s" % ra_out, node=fi.node)
    if at:
        y, x = at[0].args
        yr = sp.sin(t * D2R) * sp.sin(r * D2R) * sp.cos(dec * D2R)
        xr = sp.cos(r * D2R) - sp.sin(dec * D2R) * F
        ctx.check(R["R3"], fi, "atan2 numerator", sym.is_zero(y - yr),
                  "y = %s" % y, node=fi.node)
        ctx.check(R["R3"], fi, "atan2 denominator", sym.is_zero(x - xr),
                  "x = %s" % x, node=fi.node)


def placeholder_rule(ctx, prog, rule):
    """the 'XX:XX:XX.XX' placeholder stands for undefined input only"""
    from ..concrete import Unknown, ev
    ctx.rule(rule, "formatting is total on its domain: dec2dms / dec2hms "
             "return the XX:XX:XX.XX placeholder exactly for non-finite "
             "input -- the guard is interpreted for nan, +-inf and for "
             "finite values including the end points of the domain "
             "(dec = +-90, ra = 0 and just below 360)")
    nan, inf = float("nan"), float("inf")
    n = 0
    for name, finite in (("dec2dms", [90.0, -90.0, 0.0, -0.5, 45.25, 89.9999]),
                         ("dec2hms", [0.0, 359.9999, 180.0, 15.5, 360.0])):
        fi = prog.func("angle_tools." + name)
        par = fi.params[0]
        guards = [st for st in walk_no_nested(fi.node) if isinstance(st, ast.If)
                  and any(isinstance(r, ast.Return) and
                          isinstance(r.value, ast.Constant) and
                          isinstance(r.value.value, str) and
                          "XX" in r.value.value for r in st.body)]
        if not guards:
            raise AnalysisError("%s: placeholder guard of %s" % (rule, name))
        for gd in guards:
            try:
                bad_fin = [v for v in finite if ev(gd.test, {par: v})]
                bad_non = [v for v in (nan, inf, -inf)
                           if not ev(gd.test, {par: v})]
            except Unknown as u:
                ctx.unknown_site(rule, fi, "guard %s not interpreted (%s)" %
                                 (norm(gd.test, 40), u), node=gd)
                continue
            n += 1
            ctx.check(rule, fi, "placeholder guard " + norm(gd.test, 50),
                      not bad_fin and not bad_non,
                      "%s returns the placeholder for the valid input(s) %s "
                      "and formats the undefined input(s) %s: the string of a "
                      "valid coordinate cannot be parsed back" %
                      (name, bad_fin, bad_non), node=gd)
    ctx.floor(rule, n, 2, "placeholder guards interpreted")


def sexagesimal(ctx, prog, mod, R4="C17-R4", R5="C17-R5"):
    # ---------------------------------------------------------------- R4
    ctx.rule(R4, "every fixed-decimal sexagesimal field is split from "
             "a total that was quantised (round) first, or the carry is "
             "handled explicitly")
    n4 = 0
    for name in ("dec2dms", "dec2hms"):
        fi = prog.func("angle_tools." + name)
        fmts = [c for c in walk_no_nested(fi.node) if isinstance(c, ast.Call)
                and isinstance(c.func, ast.Attribute) and
                c.func.attr == "format" and
                isinstance(c.func.value, ast.Constant) and
                isinstance(c.func.value.value, str) and
                "f}" in c.func.value.value]
        for c in fmts:
            spec = c.func.value.value
            # which positional args are printed with f-format
            import re
            for m in re.finditer(r"\{(\d+):[^}]*f\}", spec):
                k = int(m.group(1))
                if k >= len(c.args):
                    continue
                n4 += 1
                arg = c.args[k]
                sl_names, stmts = _slice(fi.node, arg)
                rounds = [x for s in stmts + [arg] for x in ast.walk(s)
                          if isinstance(x, ast.Call) and norm(x.func) in (
                              "round", "np.round", "numpy.round", "np.rint",
                              "np.around")]
                has_round = bool(rounds)
                # the quantisation must be a rounding TO AN INTEGER number of
                # printed units, converted as it stands: round(v, 2) * 100
                # is a float just below the integer for many v and int()
                # truncates it by a whole unit
                pmr = {}
                for s_ in stmts + [arg]:
                    for x_ in ast.walk(s_):
                        for ch_ in ast.iter_child_nodes(x_):
                            pmr[ch_] = x_
                for r_ in rounds:
                    nd = r_.args[1] if len(r_.args) > 1 else kwarg(
                        r_, "ndigits") or kwarg(r_, "decimals")
                    frac = nd is not None and not (
                        isinstance(nd, ast.Constant) and nd.value in (0,
                                                                      None))
                    up = pmr.get(r_)
                    scaled = isinstance(up, ast.BinOp) and isinstance(
                        up.op, (ast.Mult, ast.Div))
                    ctx.check(R4, fi, "integer quantisation " + norm(r_, 60),
                              not frac and not scaled,
                              "%s rounds to a decimal fraction / is scaled "
                              "after rounding: the product is a binary "
                              "float that may sit just below the intended "
                              "integer, and the following int() or field "
                              "split then loses a whole unit of the last "
                              "printed digit" % norm(up if scaled else r_,
                                                     70), node=r_)
                # the quantum of the rounded total is ONE printed unit: a
                # field printed with N decimals as  units / D  needs
                # D == 10**N, else the printed value is rounded a second
                # time by the format and 59.995 (in finer units) prints as
                # 60.00 again
                mN = re.search(r"\.(\d+)f\}", m.group(0))
                argr = arg
                if isinstance(argr, ast.Name):
                    from .c08 import _resolve_local
                    argr = _resolve_local(fi.node, argr)
                if has_round and mN and isinstance(argr, ast.BinOp) and \
                        isinstance(argr.op, ast.Div):
                    Dv = prog.const_value(prog.modules[fi.module], argr.right)
                    if isinstance(Dv, (int, float)):
                        ctx.check(R4, fi, "printed unit of field {%d}: %s "
                                  "with %s decimals" % (k, norm(argr),
                                                        mN.group(1)),
                                  abs(Dv - 10 ** int(mN.group(1))) < 1e-9,
                                  "the total is quantised in units of 1/%g "
                                  "but the field is printed with %s "
                                  "decimals: the format rounds a second time "
                                  "and a value within half a printed unit "
                                  "below 60 prints as 60.%s" %
                                  (Dv, mN.group(1),
                                   "0" * int(mN.group(1))), node=c)
                carry = any(
                    isinstance(x, ast.Compare) and
                    names_in(x) & sl_names and any(
                        isinstance(cc, ast.Constant) and
                        isinstance(cc.value, (int, float)) and
                        59 <= cc.value <= 60
                        for cc in ast.walk(x))
                    for x in walk_no_nested(fi.node))
                ctx.check(R4, fi, "field {%d} = %s in %r" %
                          (k, norm(arg), spec), has_round or carry,
                          "the value printed with %s is a float remainder in "
                          "[0, 60) that is never quantised before the "
                          "split: 59.995..59.999 prints as 60.00 (e.g. "
                          "+10:59:60.00)" % m.group(0),
                          {"slice": sorted(sl_names)}, c)
    ctx.floor(R4, n4, 2, "fixed-decimal sexagesimal fields")
    # hours < 24: the reduction modulo 24 h must act on the rounded total
    hms = prog.func("angle_tools.dec2hms")
    rounded = set()
    for s in walk_no_nested(hms.node):
        if isinstance(s, ast.Assign) and any(
                isinstance(x, ast.Call) and norm(x.func) in (
                    "round", "np.round", "np.rint") for x in ast.walk(s.value)):
            for t in s.targets:
                rounded |= names_in(t)
    changed = True
    while changed:
        changed = False
        for s in walk_no_nested(hms.node):
            if isinstance(s, ast.Assign) and names_in(s.value) & rounded:
                for t in s.targets:
                    for nm in names_in(t):
                        if nm not in rounded:
                            rounded.add(nm)
                            changed = True
    mods = []
    for s in walk_no_nested(hms.node):
        if isinstance(s, ast.AugAssign) and isinstance(s.op, ast.Mod):
            mods.append((s, s.target, s.value))
        if isinstance(s, ast.BinOp) and isinstance(s.op, ast.Mod):
            mods.append((s, s.left, s.right))
    ok24 = False
    for s, operand, modulus in mods:
        mv = prog.const_value(mod, modulus)
        if mv in (24, 24 * 3600 * 100, 24 * 3600, 24 * 60) and \
                names_in(operand) & rounded:
            ok24 = True
    ctx.check(R4, hms, "hours reduced modulo 24 after rounding", ok24,
              "an RA within half a printed unit below 360 deg rounds up to "
              "24:00:00.00 unless the hours (or the rounded total) are "
              "reduced modulo 24 h AFTER the rounding; a wrap applied to "
              "the unrounded float does not help", {"rounded": sorted(rounded)},
              hms.node)
    # ---------------------------------------------------------------- R5
    ctx.rule(R5, "parse/format agreement: ':' separators, sign taken "
             "from a leading '-', RA = hours*15")
    r2d = prog.func("angle_tools.ra2dec")
    rets = [s for s in walk_no_nested(r2d.node) if isinstance(s, ast.Return)]
    from .c08 import _resolve_local
    rv = _resolve_local(r2d.node, rets[0].value) if len(rets) == 1 else None
    ok = isinstance(rv, ast.BinOp) and isinstance(rv.op, ast.Mult) and \
        {norm(_resolve_local(r2d.node, rv.left)),
         norm(_resolve_local(r2d.node, rv.right))} == \
        {"dec2dec(%s)" % r2d.params[0], "15"}
    ctx.check(R5, r2d, "ra2dec = dec2dec * 15", ok,
              "hours must be converted to degrees with the factor 15",
              node=r2d.node)
    hms = prog.func("angle_tools.dec2hms")
    div15 = any((isinstance(s, ast.AugAssign) and isinstance(s.op, ast.Div)
                 and prog.const_value(mod, s.value) == 15) or
                (isinstance(s, ast.BinOp) and isinstance(s.op, ast.Div) and
                 prog.const_value(mod, s.right) == 15)
                for s in ast.walk(hms.node))
    ctx.check(R5, hms, "dec2hms divides degrees by 15", div15,
              "degrees must be converted to hours with the factor 15",
              node=hms.node)
    d2d = prog.func("angle_tools.dec2dec")
    neg = any(isinstance(c, ast.Call) and isinstance(c.func, ast.Attribute)
              and c.func.attr == "startswith" and c.args and
              isinstance(c.args[0], ast.Constant) and c.args[0].value == "-"
              for c in ast.walk(d2d.node))
    ctx.check(R5, d2d, "sign of '-00:..' taken from the string", neg,
              "float('-00') is 0.0 and loses the sign: the leading '-' must "
              "be tested on the string", node=d2d.node)
    # ... on the FIRST FIELD of the split string (or on the stripped
    # string): the fields are separated by any white space, so the raw
    # argument may start with blanks (' -00 30 00', a right-justified
    # column) and its own startswith('-') is False
    from .c08 import _resolve_local as _rl17
    for c in ast.walk(d2d.node):
        if isinstance(c, ast.Call) and isinstance(c.func, ast.Attribute) \
                and c.func.attr == "startswith" and c.args and \
                isinstance(c.args[0], ast.Constant) and \
                c.args[0].value == "-":
            recv = c.func.value
            if isinstance(recv, ast.Name):
                recv = _rl17(d2d.node, recv)
            field = isinstance(recv, ast.Subscript) and \
                isinstance(recv.slice, ast.Constant) and \
                recv.slice.value == 0
            stripped = isinstance(recv, ast.Call) and \
                isinstance(recv.func, ast.Attribute) and \
                recv.func.attr in ("strip", "lstrip")
            ctx.check(R5, d2d, "sign read from the first field: " +
                      norm(c, 50), field or stripped,
                      "`%s` looks at the unsplit argument: with leading "
                      "white space (which the parser otherwise accepts) a "
                      "negative angle between -1 and 0 degrees parses as "
                      "positive" % norm(c, 50), node=c)
    # the arithmetic of the parser: D +- (M/60 + S/3600), minus exactly on
    # the branch taken for a leading '-' (or a negative degrees field)
    from ..core import expand_locals

    class _P(sym.Translator):
        def call(self, node):
            if isinstance(node.func, ast.Name) and node.func.id == "float" \
                    and len(node.args) == 1 and \
                    isinstance(node.args[0], ast.Subscript) and \
                    isinstance(node.args[0].slice, ast.Constant) and \
                    isinstance(node.args[0].slice.value, int):
                return sp.Symbol("f%d" % node.args[0].slice.value, real=True)
            return super().call(node)
    f0, f1, f2 = (sp.Symbol("f%d" % k, real=True) for k in range(3))
    pmd = {}
    for x_ in ast.walk(d2d.node):
        for ch_ in ast.iter_child_nodes(x_):
            pmd[ch_] = x_
    rets = [r for r in walk_no_nested(d2d.node) if isinstance(r, ast.Return)
            and r.value is not None]
    nform = 0
    for r in rets:
        under_neg = False
        cur = r
        while cur in pmd:
            par = pmd[cur]
            if isinstance(par, ast.If) and cur in par.body:
                t_ = expand_locals(d2d.node, par.test)
                if any(isinstance(c, ast.Call) and
                       isinstance(c.func, ast.Attribute) and
                       c.func.attr == "startswith" for c in ast.walk(t_)):
                    under_neg = True
            cur = par
        try:
            val = _P(prog, mod, {}).expr(expand_locals(d2d.node, r.value))
        except sym.Untranslatable as e:
            raise AnalysisError("%s: value of dec2dec: %s" % (R5, e))
        sgn = -1 if under_neg else 1
        want = f0 + sgn * (f1 / 60 + f2 / 3600)
        nform += 1
        ctx.check(R5, d2d, "dec2dec %s branch = %s" %
                  ("'-'" if under_neg else "positive", val),
                  sp.simplify(val - want) == 0,
                  "the parsed value must be D %s M/60 %s S/3600 on the "
                  "branch for %s strings; found %s" %
                  ("-" if under_neg else "+", "-" if under_neg else "+",
                   "negative" if under_neg else "non-negative", val), node=r)
    ctx.check(R5, d2d, "dec2dec has a '-' branch and a positive branch",
              nform == 2 and len({bool(x) for x in (0, 1)}) == 2,
              "expected two return formulae", node=d2d.node)
    # the seconds field is optional:  'DD:MM'  is  'DD:MM:00'
    opt = [st for st in walk_no_nested(d2d.node) if isinstance(st, ast.If)
           and isinstance(st.test, ast.Compare) and
           isinstance(st.test.ops[0], ast.Eq) and
           norm(st.test.left).startswith("len(") and
           norm(st.test.comparators[0]) == "2" and
           any(isinstance(c, ast.Call) and isinstance(c.func, ast.Attribute)
               and c.func.attr == "append" and c.args and
               isinstance(c.args[0], ast.Constant) and
               str(c.args[0].value).strip("0.") == ""
               for b in st.body for c in ast.walk(b))]
    ctx.check(R5, d2d, "two-field strings get a zero seconds field",
              len(opt) == 1, "'DD:MM' must parse as 'DD:MM:00': a test "
              "len(fields) == 2 appending '0' was expected", node=d2d.node)
    rep = any(isinstance(c, ast.Call) and isinstance(c.func, ast.Attribute)
              and c.func.attr == "replace" and len(c.args) == 2 and
              isinstance(c.args[0], ast.Constant) and c.args[0].value == ":"
              for c in ast.walk(d2d.node))
    seps = all(":" in c.func.value.value for name in ("dec2dms", "dec2hms")
               for c in walk_no_nested(prog.func("angle_tools." + name).node)
               if isinstance(c, ast.Call) and
               isinstance(c.func, ast.Attribute) and c.func.attr == "format"
               and isinstance(c.func.value, ast.Constant) and
               isinstance(c.func.value.value, str) and
               "{" in c.func.value.value)
    ctx.check(R5, d2d, "':' separators written and parsed", rep and
              seps, "formatters and parser disagree on the field separator",
              node=d2d.node)


def _slice(fnode, expr):
    names, stmts, work = set(), [], list(names_in(expr))
    while work:
        nm = work.pop()
        if nm in names:
            continue
        names.add(nm)
        for s in walk_no_nested(fnode):
            if isinstance(s, ast.Assign) and any(nm in names_in(t)
                                                 for t in s.targets):
                stmts.append(s)
                work.extend(names_in(s.value))
            if isinstance(s, ast.AugAssign) and nm in names_in(s.target):
                stmts.append(s)
                work.extend(names_in(s.value))
    return names, stmts


def _half_angle_zero(e, syms):
    """identity check for expressions in degrees containing half angles:
    substitute every angle a (degrees) by (360/pi)*a' so that all trig
    arguments become integer combinations of the a' (radian half angles)"""
    sub = {s: 360 / sp.pi * sp.Symbol(s.name + "_h", real=True)
           for s in syms}
    return sym.is_zero(sp.expand(e.subs(sub)))


ALIASING_CALLS = {"np.asarray", "numpy.asarray", "np.asanyarray",
                  "np.atleast_1d", "np.atleast_2d", "np.ravel", "np.squeeze",
                  "np.reshape", "np.transpose", "np.ascontiguousarray",
                  "np.broadcast_to", "np.asfarray"}
ALIASING_METHODS = {"view", "reshape", "ravel", "squeeze", "transpose",
                    "swapaxes"}
INPLACE_METHODS = {"sort", "fill", "put", "resize", "itemset", "partition",
                   "byteswap"}


def r7_purity(ctx, prog, rule, names):
    """vectorised geometry primitives never write into their arguments"""
    ctx.rule(rule, "the vectorised primitives (gcd, bear, translate, rhumb "
             "variants) do not modify their array arguments: no in-place "
             "update of a parameter or of a view of one (np.asarray of a "
             "float64 array IS that array) -- otherwise the start point of "
             "translate is overwritten by its result and the distance / "
             "bearing back to it are wrong")
    n = 0
    for name in names:
        if not prog.has_func("angle_tools." + name):
            continue
        fi = prog.func("angle_tools." + name)
        alias = set(fi.params)
        stmts = sorted((x for x in walk_no_nested(fi.node)
                        if isinstance(x, (ast.Assign, ast.AugAssign,
                                          ast.Expr))),
                       key=lambda x: (x.lineno, x.col_offset))

        def is_alias(e):
            if isinstance(e, ast.Name):
                return e.id in alias
            if isinstance(e, (ast.Subscript, ast.Starred)):
                return is_alias(e.value)
            if isinstance(e, ast.Attribute) and e.attr in ("T", "real",
                                                           "flat"):
                return is_alias(e.value)
            if isinstance(e, ast.Call):
                fn = norm(e.func)
                if fn in ALIASING_CALLS and e.args:
                    return is_alias(e.args[0])
                if fn in ("np.array", "numpy.array") and e.args and any(
                        k.arg == "copy" and isinstance(k.value, ast.Constant)
                        and k.value.value is False for k in e.keywords):
                    return is_alias(e.args[0])
                if isinstance(e.func, ast.Attribute) and \
                        e.func.attr in ALIASING_METHODS:
                    return is_alias(e.func.value)
            return False
        for st in stmts:
            bad = None
            if isinstance(st, ast.AugAssign):
                n += 1
                if is_alias(st.target):
                    # rebinding a scalar parameter is harmless only when it
                    # cannot be an array: these functions are vectorised
                    bad = st
            elif isinstance(st, ast.Assign):
                for t in st.targets:
                    if isinstance(t, ast.Subscript) and is_alias(t.value):
                        bad = st
                for t in st.targets:
                    if isinstance(t, ast.Name):
                        if is_alias(st.value):
                            alias.add(t.id)
                        else:
                            alias.discard(t.id)
                    elif isinstance(t, (ast.Tuple, ast.List)):
                        for el in t.elts:
                            if isinstance(el, ast.Name):
                                alias.discard(el.id)
            for c in ast.walk(st):
                if isinstance(c, ast.Call):
                    for k in c.keywords:
                        if k.arg == "out" and is_alias(k.value):
                            bad = st
                    if isinstance(c.func, ast.Attribute) and \
                            c.func.attr in INPLACE_METHODS and \
                            is_alias(c.func.value):
                        bad = st
            if bad is not None:
                ctx.check(rule, fi, "in-place update " + norm(bad, 60), False,
                          "%s writes into an argument of %s (or a view of "
                          "it): the caller's array is modified" %
                          (norm(bad, 60), name), node=bad)
        ctx.ob(rule, fi, "%s leaves its arguments untouched" % name, True,
               {}, fi.node)
        n += 1
    ctx.floor(rule, n, 3, "vectorised primitives examined")


def signed_field_idiom(fnode):
    """Known-bad sexagesimal idiom: the sign of an angle is carried by a
    product with the integer degrees / hours field (sign(x) * dd formatted as
    a field): for |x| < 1 the field is 0 and the sign is lost.  Returns the
    offending product nodes that reach a str.format / % / f-string."""
    def has_sign(e):
        return any(isinstance(c, ast.Call) and
                   norm(c.func).split(".")[-1] in ("sign", "copysign")
                   for c in ast.walk(e))
    prods = []
    for x in ast.walk(fnode):
        if isinstance(x, ast.BinOp) and isinstance(x.op, ast.Mult) and (
                has_sign(x.left) != has_sign(x.right)):
            prods.append(x)
    out = []
    for x in ast.walk(fnode):
        fields = []
        if isinstance(x, ast.Call) and isinstance(x.func, ast.Attribute) \
                and x.func.attr == "format":
            fields = list(x.args) + [k.value for k in x.keywords]
        elif isinstance(x, ast.BinOp) and isinstance(x.op, ast.Mod) and \
                isinstance(x.left, ast.Constant) and \
                isinstance(x.left.value, str):
            fields = x.right.elts if isinstance(x.right, ast.Tuple) \
                else [x.right]
        elif isinstance(x, ast.JoinedStr):
            fields = [v.value for v in x.values
                      if isinstance(v, ast.FormattedValue)]
        for f in fields:
            names = {n.id for n in ast.walk(f) if isinstance(n, ast.Name)}
            for p_ in prods:
                if any(y is p_ for y in ast.walk(f)):
                    out.append(p_)
                else:
                    # the product was bound to a name that is formatted
                    for st in ast.walk(fnode):
                        if isinstance(st, ast.Assign) and st.value is p_ \
                                and any(isinstance(t, ast.Name) and
                                        t.id in names for t in st.targets):
                            out.append(p_)
    return out
