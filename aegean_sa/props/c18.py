"""C18 -- catalogues survive a write/read round trip."""
from __future__ import annotations

import ast

from ..core import AnalysisError, PKG, names_in, norm, walk_no_nested

EXPLANATION = (
    "Static sibling/agreement analysis of catalogs.py and models.py. R1: in "
    "classify_catalog no class is tested after one of its base classes "
    "(class hierarchy from the parsed class table) and each list receives "
    "the instances of its own test. R2: the tuple positions returned by "
    "classify_catalog are consumed in the same order and paired with "
    "_comp/_isle/_simp and the three sqlite table names. R3: every entry of "
    "a source class's `names` is an attribute assigned in its __init__ chain; "
    "as_list and the table writer iterate that same list. R4: the reader "
    "iterates the same `names` attribute the writer uses. R5: FITS column "
    "typing -- string column widths are computed over the whole column (not "
    "the first row), err_* columns are forced to float. R6: every extension "
    "advertised by get_table_formats() reaches a non-fallback branch of "
    "save_catalog, and every readable extension a branch of load_table. "
    "Numeric precision of astropy's writers and sqlite contents are not "
    "decided.")
ASSUMPTIONS = ["astropy Table/ascii/votable/fits writers store the columns "
               "they are given"]

SRC = ["SimpleSource", "IslandSource", "ComponentSource"]


MUTANTS = [
    ("masked columns filled with the default value on read",
     "AegeanTools/catalogs.py",
     "    source_list = []\n    if table is None:",
     "    source_list = []\n    if table is not None and table.has_masked_columns:\n"
     "        table = table.filled()\n    if table is None:", "C18-R14"),
    ("nulls applied to every value of a database row",
     "AegeanTools/catalogs.py",
     "        data = list(map(nulls, list(r.as_list() for r in t)))",
     "        data = [list(map(nulls, r.as_list())) for r in t]", "C18-R13"),
    ("tables cached by file name", "AegeanTools/catalogs.py",
     "def load_table(filename):", "@lru_cache(maxsize=16)\ndef load_table(filename):",
     "C18-R12"),
    ("csv / tab read with the fast float converter", "AegeanTools/catalogs.py",
     "        t = ascii.read(filename)",
     "        t = ascii.read(filename,\n"
     "                       fast_reader={'use_fast_converter': True})",
     "C18-R11"),
    ("column dtype taken from the first row", "AegeanTools/catalogs.py",
     "            tab_dict[col_name] = [getattr(c, name, None) for c in catalog]",
     "            vals = [getattr(c, name, None) for c in catalog]\n"
     "            tab_dict[col_name] = np.array(vals, dtype=type(vals[0]))",
     "C18-R10"),
    ("empty type ends the sqlite loop", "AegeanTools/catalogs.py",
     "            continue  # don't write empty tables",
     "            break  # don't write empty tables", "C18-R9"),
    ("islands written only when there are components",
     "AegeanTools/catalogs.py",
     "    if len(islands) > 0:\n        new_name = \"{1}{0}{2}\".format('_isle'",
     "    elif len(islands) > 0:\n        new_name = \"{1}{0}{2}\".format('_isle'",
     "C18-R9"),
    ("base class tested first", "AegeanTools/models.py",
     "        if isinstance(source, ComponentSource):\n            "
     "components.append(source)\n        elif isinstance(source, "
     "IslandSource):\n            islands.append(source)\n        elif "
     "isinstance(source, SimpleSource):\n            simples.append(source)",
     "        if isinstance(source, SimpleSource):\n            "
     "simples.append(source)\n        elif isinstance(source, "
     "IslandSource):\n            islands.append(source)\n        elif "
     "isinstance(source, ComponentSource):\n            components.append("
     "source)", "C18-R1"),
    ("returned lists swapped", "AegeanTools/models.py",
     "    return components, islands, simples",
     "    return components, simples, islands", "C18-R1"),
    ("suffix swapped", "AegeanTools/catalogs.py",
     "new_name = \"{1}{0}{2}\".format('_isle', *os.path.splitext(filename))",
     "new_name = \"{1}{0}{2}\".format('_simp', *os.path.splitext(filename))",
     "C18-R2"),
    ("db tables misnamed", "AegeanTools/catalogs.py",
     "[\"components\", \"islands\", \"simples\"]):",
     "[\"components\", \"simples\", \"islands\"]):", "C18-R2"),
    ("column without attribute", "AegeanTools/models.py",
     "             'flags', 'residual_mean', 'residual_std',",
     "             'flags', 'residual_mean', 'residual_rms',", "C18-R3"),
    ("reader ignores names", "AegeanTools/catalogs.py",
     "        for param in src_type.names:",
     "        for param in table.colnames[:12]:", "C18-R4"),
    ("first-row string width", "AegeanTools/catalogs.py",
     "        elif isinstance(table[name][0], str):",
     "        elif name == 'uuid':", "C18-R5"),
    ("16-bit integers", "AegeanTools/catalogs.py",
     "            types = \"J\"", "            types = \"I\"", "C18-R5"),
    ("errors typed by first row", "AegeanTools/catalogs.py",
     "        if name.startswith('err_'):\n            fmt = 'E'\n        "
     "elif", "        if False:\n            fmt = 'E'\n        elif",
     "C18-R5"),
    ("html not dispatched", "AegeanTools/catalogs.py",
     "                           'tab': 'tab', 'tex': 'latex', 'html': "
     "'html'}", "                           'tab': 'tab', 'tex': 'latex'}",
     "C18-R6"),
    ("float32 not recognised by sqlTypes (seed C18b)",
     "AegeanTools/catalogs.py",
     "a float\n            elif isinstance(val, (float, np.float64, np.float32)):",
     "a float\n            elif isinstance(val, (float, np.float64)):", "C18-R7"),
    ("numpy ints as text", "AegeanTools/catalogs.py",
     "types.append(\"BOOL\")\n            elif isinstance(val, (int, np.int64, np.int32)):",
     "types.append(\"BOOL\")\n            elif isinstance(val, int):", "C18-R7"),
    ("float32 not recognised by FITSTableType", "AegeanTools/catalogs.py",
     "        elif isinstance(val, (float, np.float64, np.float32)):\n            types = \"E\"",
     "        elif isinstance(val, (float, np.float64)):\n            types = \"E\"", "C18-R7"),
    ("reader takes the first column for every field",
     "AegeanTools/catalogs.py",
     "                val = row[param]", "                val = row[0]", "C18-R4"),
    ("components written sorted (seed C18d)", "AegeanTools/catalogs.py",
     "        for name in catalog[0].names:", "        catalog = sorted(catalog)\n        for name in catalog[0].names:", "C18-R8"),
]
TWINS = [
    ("double precision errors", "AegeanTools/catalogs.py",
     "        if name.startswith('err_'):\n            fmt = 'E'",
     "        if name.startswith('err_'):\n            fmt = 'D'"),
    ("abstract numpy scalar classes", "AegeanTools/catalogs.py",
     "a float\n            elif isinstance(val, (float, np.float64, np.float32)):",
     "a float\n            elif isinstance(val, (float, np.floating)):"),
]



def bases_closure(prog, cq):
    out = []
    seen = set()
    work = [cq]
    while work:
        c = work.pop()
        if c in seen or c not in prog.classes:
            continue
        seen.add(c)
        ci = prog.classes[c]
        for b in ci.bases:
            t = prog.resolve_name(prog.modules[ci.module], b.split(".")[0])
            if t in prog.classes:
                out.append(t)
                work.append(t)
    return out


def r13_no_value_substitution(ctx, prog, cats, rule="C18-R13"):
    """-1 (the 'no error' marker, but also a legitimate flux) and NaN are
    written as they are: a function that replaces particular values by a
    constant (catalogs.nulls: -1 -> None) is never applied to the individual
    field values of a source on the way to a file / a database row."""
    ctx.rule(rule, "the values written are the catalogue's values: no "
             "value-substituting function (one that returns a constant for "
             "some inputs and its argument otherwise, e.g. nulls: -1 -> "
             "None) is applied to individual field values in the writers -- "
             "the -1 'no error' marker and fluxes equal to -1 would reach "
             "sqlite as NULL, indistinguishable from NaN")
    from .c08 import _resolve_local
    subst = {}
    for q, f in prog.functions.items():
        if f.module != cats.name or f.cls or not f.params:
            continue
        rets = [r for r in ast.walk(f.node) if isinstance(r, ast.Return)]
        consts = [r for r in rets if r.value is None or
                  isinstance(r.value, ast.Constant)]
        ident = [r for r in rets if isinstance(r.value, ast.Name) and
                 r.value.id == f.params[0]]
        if consts and ident and len(f.params) == 1:
            subst[f.name] = f
    n = 0

    def rows_collection(fnode, e, depth=0):
        """list of rows: [r.as_list() for r in t] (possibly wrapped)"""
        e = _resolve_local(fnode, e) if isinstance(e, ast.Name) else e
        if isinstance(e, ast.Call) and isinstance(e.func, ast.Name) and \
                e.func.id in ("list", "tuple", "iter") and e.args and \
                depth < 3:
            return rows_collection(fnode, e.args[0], depth + 1)
        if isinstance(e, (ast.GeneratorExp, ast.ListComp)):
            el = e.elt
            return isinstance(el, ast.Call) and \
                isinstance(el.func, ast.Attribute) and \
                el.func.attr == "as_list"
        return False

    for q, f in sorted(prog.functions.items()):
        if f.module != cats.name:
            continue
        for c in ast.walk(f.node):
            if not isinstance(c, ast.Call):
                continue
            target = None
            if isinstance(c.func, ast.Name) and c.func.id == "map" and \
                    len(c.args) == 2 and isinstance(c.args[0], ast.Name) \
                    and c.args[0].id in subst:
                target = ("map", c.args[0].id, c.args[1])
            elif isinstance(c.func, ast.Name) and c.func.id in subst and \
                    c.args and f.name != c.func.id:
                target = ("call", c.func.id, c.args[0])
            if target is None:
                continue
            n += 1
            how, fn, arg = target

            def is_row(e, depth=0):
                """a whole row: r.as_list(), or a loop / comprehension
                variable running over a collection of rows"""
                if isinstance(e, ast.Call) and \
                        isinstance(e.func, ast.Attribute) and \
                        e.func.attr == "as_list":
                    return True
                if isinstance(e, ast.Name) and depth < 3:
                    for x in ast.walk(f.node):
                        if isinstance(x, ast.comprehension) and \
                                isinstance(x.target, ast.Name) and \
                                x.target.id == e.id:
                            return rows_collection(f.node, x.iter)
                        if isinstance(x, ast.For) and \
                                isinstance(x.target, ast.Name) and \
                                x.target.id == e.id:
                            return rows_collection(f.node, x.iter)
                return False
            if how == "map":
                ok = rows_collection(f.node, arg)
            else:
                ok = is_row(arg)
            ctx.check(rule, f, "%s applied in %s" % (fn, norm(c, 70)), ok,
                      "%s (which returns a constant for some values) is "
                      "applied to individual field values: every field "
                      "equal to that value -- the -1 'no error' marker, a "
                      "flux of exactly -1 -- is written as NULL / None and "
                      "cannot be told from NaN when read back" % fn, node=c)
    ctx.ob(rule, prog.func("catalogs.writeDB"),
           "value-substituting functions of catalogs.py: %s; %d application(s)"
           % (sorted(subst), n), True, {}, prog.func("catalogs.writeDB").node)


def run(ctx):
    prog = ctx.prog
    models = prog.module("models")
    cats = prog.module("catalogs")
    # ---------------------------------------------------------------- R1
    ctx.rule("C18-R1", "classify_catalog tests subclasses before their base "
             "classes and appends to the list of the tested class")
    cc = prog.func("models.classify_catalog")
    chain = []
    for n in walk_no_nested(cc.node):
        if isinstance(n, ast.If) and isinstance(n.test, ast.Call) and \
                norm(n.test.func) == "isinstance" and \
                not any(n in getattr(p, "orelse", []) for p in
                        walk_no_nested(cc.node) if isinstance(p, ast.If)):
            cur = n
            while True:
                cls = norm(cur.test.args[1])
                app = [c for c in ast.walk(ast.Module(cur.body, []))
                       if isinstance(c, ast.Call) and
                       isinstance(c.func, ast.Attribute) and
                       c.func.attr == "append"]
                chain.append((cls, norm(app[0].func.value) if app else None,
                              cur))
                if len(cur.orelse) == 1 and isinstance(cur.orelse[0],
                                                       ast.If) and \
                        isinstance(cur.orelse[0].test, ast.Call):
                    cur = cur.orelse[0]
                else:
                    break
    if len(chain) < 2:
        chain = []
        # table-driven form:  for T, L in ((Cls, lst), ...):
        #                         if isinstance(src, T): L.append(src); break
        from .c08 import _resolve_local
        for lp in walk_no_nested(cc.node):
            if not (isinstance(lp, ast.For) and
                    isinstance(lp.target, ast.Tuple) and
                    len(lp.target.elts) == 2):
                continue
            tbl = lp.iter
            if isinstance(tbl, ast.Name):
                tbl = _resolve_local(cc.node, tbl)
            if not (isinstance(tbl, (ast.Tuple, ast.List)) and all(
                    isinstance(e, (ast.Tuple, ast.List)) and len(e.elts) == 2
                    for e in tbl.elts)):
                continue
            tv, lv = [norm(e) for e in lp.target.elts]
            ifs = [x for x in lp.body if isinstance(x, ast.If) and
                   isinstance(x.test, ast.Call) and
                   norm(x.test.func) == "isinstance" and
                   len(x.test.args) == 2 and norm(x.test.args[1]) == tv]
            if len(ifs) != 1:
                continue
            body = ifs[0].body
            app = [c for c in ast.walk(ast.Module(body, []))
                   if isinstance(c, ast.Call) and
                   isinstance(c.func, ast.Attribute) and
                   c.func.attr == "append" and norm(c.func.value) == lv]
            brk = any(isinstance(x, ast.Break) for x in body)
            ctx.check("C18-R1", cc, "first matching class wins", brk and
                      bool(app), "without a break after the append a "
                      "ComponentSource is also filed under its base class "
                      "SimpleSource", node=ifs[0])
            for e in tbl.elts:
                chain.append((norm(e.elts[0]), norm(e.elts[1]), e))
    ctx.floor("C18-R1", len(chain), 3, "isinstance tests in classify_catalog")
    for i, (cls, lst, node) in enumerate(chain):
        cq = prog.resolve_name(models, cls)
        earlier = [prog.resolve_name(models, c) for c, _, _ in chain[:i]]
        shadow = [e for e in earlier if e in bases_closure(prog, cq)]
        ctx.check("C18-R1", cc, "test isinstance(.., %s) -> %s" % (cls, lst),
                  not shadow, "%s is tested after its base class %s: its "
                  "instances are classified as the base type and written to "
                  "the wrong file" % (cls, shadow), node=node)
    ret = [s for s in walk_no_nested(cc.node) if isinstance(s, ast.Return)]
    if len(ret) != 1 or not isinstance(ret[0].value, ast.Tuple):
        raise AnalysisError("C18: classify_catalog return shape")
    order = [norm(e) for e in ret[0].value.elts]
    by_list = {lst: cls for cls, lst, _ in chain}
    want = ["ComponentSource", "IslandSource", "SimpleSource"]
    ctx.check("C18-R1", cc, "returned lists %s hold %s" %
              (order, [by_list.get(o) for o in order]),
              [by_list.get(o) for o in order] == want,
              "classify_catalog must return (components, islands, simples)",
              node=ret[0])
    # ---------------------------------------------------------------- R2
    ctx.rule("C18-R2", "consumers unpack classify_catalog's tuple in the "
             "same order and pair components/_comp, islands/_isle, "
             "simples/_simp (sqlite: components/islands/simples)")
    n2 = 0
    for q, fi in prog.functions.items():
        if fi.module != cats.name:
            continue
        for s in walk_no_nested(fi.node):
            if isinstance(s, ast.Assign) and isinstance(s.value, ast.Call) \
                    and norm(s.value.func) == "classify_catalog" and \
                    isinstance(s.targets[0], ast.Tuple):
                n2 += 1
                tg = [norm(e) for e in s.targets[0].elts]
                ok = len(tg) == 3 and tg[0].startswith("comp") and \
                    tg[1].startswith("isl") and tg[2].startswith("simp")
                ctx.check("C18-R2", fi, "unpack %s" % tg, ok,
                          "the tuple is (components, islands, simples)",
                          node=s)
                # suffix pairing
                for iff in walk_no_nested(fi.node):
                    if isinstance(iff, ast.If) and \
                            isinstance(iff.test, ast.Compare) and \
                            isinstance(iff.test.left, ast.Call) and \
                            norm(iff.test.left.func) == "len":
                        lst = norm(iff.test.left.args[0])
                        if lst not in tg:
                            continue
                        lits = [c.value for b in iff.body
                                for c in ast.walk(b)
                                if isinstance(c, ast.Constant) and
                                isinstance(c.value, str) and
                                c.value.strip("_") in ("comp", "isle",
                                                       "simp")]
                        if not lits:
                            continue
                        n2 += 1
                        wantsfx = {"comp": "comp", "isl": "isle",
                                   "simp": "simp"}[
                            "comp" if lst.startswith("comp") else
                            "isl" if lst.startswith("isl") else "simp"]
                        ctx.check("C18-R2", fi, "%s -> %s" % (lst, lits),
                                  all(l.strip("_") == wantsfx for l in lits),
                                  "list %s is written with suffix %s" %
                                  (lst, lits), node=iff)
            if isinstance(s, ast.For) and isinstance(s.iter, ast.Call) and \
                    norm(s.iter.func) == "zip" and len(s.iter.args) == 2 and \
                    isinstance(s.iter.args[0], ast.Call) and \
                    norm(s.iter.args[0].func) == "classify_catalog":
                n2 += 1
                nm = s.iter.args[1]
                if isinstance(nm, ast.Name):
                    from .c08 import _resolve_local
                    nm = _resolve_local(fi.node, nm)
                names = [e.value for e in nm.elts
                         if isinstance(e, ast.Constant)] \
                    if isinstance(nm, (ast.List, ast.Tuple)) else None
                ctx.check("C18-R2", fi, "sqlite tables %s" % names,
                          names == ["components", "islands", "simples"],
                          "table names must follow (components, islands, "
                          "simples)", node=s)
    ctx.floor("C18-R2", n2, 4, "consumers of classify_catalog")
    r9_independent(ctx, prog, cats)
    r10_column_types(ctx, prog, cats)
    r11_exact_parsing(ctx, prog, cats)

    from ..core import shared_state as _shared
    ctx.rule("C18-R12", "a read returns what the file holds now: no function of catalogs.py memoises (lru_cache, module- or class-level containers, mutable defaults) -- a table cached by file name survives the file being rewritten by save_catalog")
    _n = 0
    for _q, _f in sorted(prog.functions.items()):
        if not (_f.module == cats.name):
            continue
        _n += 1
        _st = _shared(prog, _f)
        ctx.check("C18-R12", _f, "%s keeps no state between calls" % _f.short,
                  not _st, "%s: the table read earlier under this name is returned although the file has been rewritten" % "; ".join(d for _, d in _st[:3]),
                  node=_st[0][0] if _st else _f.node)
    ctx.floor("C18-R12", _n, 10, "functions examined for shared state")
    r13_no_value_substitution(ctx, prog, cats)
    from ..precision import nan_replaced
    ctx.rule("C18-R14", "NaN survives reading and writing: no function of "
             "catalogs.py turns blank / masked entries into numbers "
             "(Table.filled() without fill_value=nan gives 1e20, "
             "nan_to_num, where(isnan, number, x), x[isnan] = number)")
    n14 = 0
    for _q, _f in sorted(prog.functions.items()):
        if _f.module != cats.name:
            continue
        n14 += 1
        rep = nan_replaced(prog, _f)
        ctx.check("C18-R14", _f, "no NaN replaced by a number in " + _f.short,
                  not rep, "%s: %s -- a NaN field of a source comes back as "
                  "an ordinary number" %
                  (rep[0][1] if rep else "", norm(rep[0][0], 60) if rep
                   else ""), node=rep[0][0] if rep else _f.node)
    ctx.floor("C18-R14", n14, 10, "functions of catalogs.py")
    # ---------------------------------------------------------------- R3
    ctx.rule("C18-R3", "names ⊆ attributes assigned by the __init__ chain; "
             "as_list and the writer iterate `names`")
    for c in SRC:
        ci = prog.klass("models." + c)
        names = None
        for s in ci.node.body:
            if isinstance(s, ast.Assign) and norm(s.targets[0]) == "names":
                names = [e.value for e in s.value.elts]
        if names is None:
            raise AnalysisError("C18-R3: %s.names missing" % c)
        attrs = set()
        for cq in [ci.qualname] + bases_closure(prog, ci.qualname):
            init = prog.classes[cq].methods.get("__init__")
            if init:
                for s in walk_no_nested(init.node):
                    if isinstance(s, ast.Assign):
                        for t in s.targets:
                            if isinstance(t, ast.Attribute) and \
                                    norm(t.value) == "self":
                                attrs.add(t.attr)
        missing = [n for n in names if n not in attrs]
        ctx.check("C18-R3", "models." + c, "names of %s (%d)" %
                  (c, len(names)), not missing,
                  "columns %s are not attributes set by __init__: the "
                  "writer emits None for them" % missing,
                  node=ci.node)
        ctx.check("C18-R3", "models." + c, "names unique in " + c,
                  len(set(names)) == len(names),
                  "duplicate column names", node=ci.node)
    al = prog.func("models.SimpleSource.as_list")
    ok = any(isinstance(l, ast.For) and norm(l.iter) == "self.names"
             for l in walk_no_nested(al.node)) or any(
        isinstance(l, (ast.ListComp, ast.GeneratorExp)) and
        len(l.generators) == 1 and
        norm(l.generators[0].iter) == "self.names" and
        not l.generators[0].ifs and
        isinstance(l.elt, ast.Call) and norm(l.elt.func) == "getattr" and
        len(l.elt.args) >= 2 and
        norm(l.elt.args[1]) == norm(l.generators[0].target)
        for l in ast.walk(al.node))
    ctx.check("C18-R3", al, "as_list iterates self.names", ok,
              "as_list must follow the names order", node=al.node)
    # ---------------------------------------------------------------- R4
    ctx.rule("C18-R4", "reader and writer iterate the same `names` list")
    wr = prog.func("catalogs.write_catalog.writer")
    rd = prog.func("catalogs.table_to_source_list")
    wloops = [l for l in walk_no_nested(wr.node) if isinstance(l, ast.For)
              and norm(l.iter).endswith(".names")]
    rloops = [l for l in walk_no_nested(rd.node) if isinstance(l, ast.For)
              and norm(l.iter).endswith(".names")]
    okw, okr = bool(wloops), bool(rloops)
    wvar = {norm(l.target) for l in wloops}
    rvar = {norm(l.target) for l in rloops}
    ctx.check("C18-R4", wr, "writer iterates <source>.names", okw,
              "writer does not iterate the class's names", node=wr.node)
    ctx.check("C18-R4", rd, "reader iterates <type>.names", okr,
              "reader does not iterate the class's names", node=rd.node)
    getv = [c for c in walk_no_nested(wr.node) if isinstance(c, ast.Call)
            and norm(c.func) == "getattr" and len(c.args) >= 2]
    ctx.check("C18-R4", wr, "writer reads getattr(source, name)",
              bool(getv) and all(norm(c.args[1]) in wvar for c in getv),
              "column values must come from the attribute with the column's "
              "own name", node=getv[0] if getv else wr.node)
    setv = [c for c in walk_no_nested(rd.node) if isinstance(c, ast.Call)
            and norm(c.func) == "setattr" and len(c.args) == 3]
    ctx.check("C18-R4", rd, "reader sets setattr(src, param, row[param])",
              bool(setv) and all(norm(c.args[1]) in rvar for c in setv),
              "values must be stored under the column's own name",
              node=setv[0] if setv else rd.node)
    # ... and the value comes from the row's column of that name
    from .c08 import _resolve_local

    def from_row(e, var, depth=0):
        if depth > 4:
            return False
        if isinstance(e, ast.Subscript) and norm(e.slice) == var and \
                isinstance(e.value, ast.Name):
            return True
        if isinstance(e, ast.Name):
            defs_ = [d.value for d in walk_no_nested(rd.node)
                     if isinstance(d, ast.Assign) and
                     norm(d.targets[0]) == e.id]
            # x = np.float64(x) style re-wrapping keeps the origin
            def self_ref(d):
                if isinstance(d, ast.Name):
                    return d.id == e.id
                if isinstance(d, ast.Call) and len(d.args) == 1 and \
                        norm(d.func) in ("np.float64", "numpy.float64",
                                         "float", "int", "str"):
                    return self_ref(d.args[0])
                if isinstance(d, ast.IfExp):
                    return self_ref(d.body) and self_ref(d.orelse)
                return False
            defs_ = [d for d in defs_ if not self_ref(d)]
            return bool(defs_) and all(from_row(d, var, depth + 1)
                                       for d in defs_)
        if isinstance(e, ast.Call) and len(e.args) == 1 and \
                norm(e.func) in ("np.float64", "numpy.float64", "float",
                                 "int", "str"):
            return from_row(e.args[0], var, depth + 1)
        if isinstance(e, ast.IfExp):
            return from_row(e.body, var, depth + 1) and \
                from_row(e.orelse, var, depth + 1)
        return False
    for c in setv:
        ctx.check("C18-R4", rd, "value of %s comes from row[%s]" %
                  (norm(c, 50), norm(c.args[1])),
                  from_row(c.args[2], norm(c.args[1])),
                  "the value stored for column `%s` is %s, not the row's "
                  "entry of that column" % (norm(c.args[1]),
                                            norm(c.args[2], 50)), node=c)
    # ---------------------------------------------------------------- R5
    ctx.rule("C18-R5", "FITS columns: string widths over the whole column, "
             "err_* forced to float ('E'/'D')")
    wf = prog.func("catalogs.writeFITSTable")
    tt = prog.functions.get(wf.qualname + ".FITSTableType")
    # find where string formats are derived
    first_row_str = False
    whole_col_str = False
    for s in walk_no_nested(wf.node):
        if isinstance(s, ast.Assign) and norm(s.targets[0]) == "fmt":
            v = s.value
            # fmt = FITSTableType(table[name][0]) -> first row only
            if isinstance(v, ast.Call) and tt is not None and \
                    norm(v.func) == tt.name and v.args and \
                    isinstance(v.args[0], ast.Subscript) and \
                    isinstance(v.args[0].slice, ast.Constant):
                # does the helper derive a *width* from that single value?
                for c in ast.walk(tt.node):
                    if isinstance(c, ast.Call) and norm(c.func) == "len":
                        first_row_str = s
            if any(isinstance(c, ast.Call) and norm(c.func) == "max"
                   for c in ast.walk(v)) and "A" in norm(v):
                whole_col_str = s
    # which branch handles generic string columns?
    guard_names = []
    for iff in walk_no_nested(wf.node):
        if isinstance(iff, ast.If) and "name" in names_in(iff.test):
            cur = iff
            while True:
                guard_names.append(norm(cur.test))
                if len(cur.orelse) == 1 and isinstance(cur.orelse[0], ast.If):
                    cur = cur.orelse[0]
                else:
                    break
            break
    generic_str_whole = whole_col_str is not False and any(
        "str" in g or "dtype" in g or "kind" in g for g in guard_names)
    ctx.check("C18-R5", wf, "string column width derivation",
              first_row_str is False or generic_str_whole,
              "the width of a string column is len() of its FIRST value "
              "(only 'uuid' is sized over the whole column): when the first "
              "row is atypical (e.g. dec_str 'XX:XX:XX.XX' of a NaN "
              "position is 11 characters, a normal one 12) every longer "
              "value is truncated in the FITS table",
              {"guards": guard_names},
              first_row_str if first_row_str is not False else wf.node)
    # per-type FITS format codes of the helper
    if tt is None:
        raise AnalysisError("C18-R5: FITSTableType helper not found")
    want_codes = {"int": ("J", "K"), "float": ("E", "D"), "bool": ("L",)}
    seen_types = set()
    chain5, _default5 = _dispatch_chain(prog, tt)
    for classes5, val5, iff in chain5:
        kind = "bool" if classes5 == {"bool"} else \
            "int" if any("int" in c for c in classes5) else \
            "float" if any("float" in c for c in classes5) else None
        if kind is None:
            continue
        lits = [val5] if val5 is not None else []
        seen_types.add(kind)
        ctx.check("C18-R5", tt, "FITS format for %s values: %s" %
                  (kind, lits), bool(lits) and all(
                      l in want_codes[kind] for l in lits),
                  "%s columns must be written as %s; %s would silently "
                  "%s" % (kind, "/".join(want_codes[kind]), lits,
                          "wrap island numbers / pixel counts >= 32768 "
                          "(16-bit)" if kind == "int" else
                          "change the stored values"), node=iff)
    ctx.check("C18-R5", tt, "typed branches %s" % sorted(seen_types),
              {"int", "float"} <= seen_types,
              "the FITS type helper must distinguish int and float values",
              node=tt.node)
    errf = any(isinstance(iff, ast.If) and "err_" in norm(iff.test) and any(
        isinstance(s, ast.Assign) and norm(s.targets[0]) == "fmt" and
        norm(s.value) in ("'E'", "'D'") for s in iff.body)
        for iff in walk_no_nested(wf.node))
    ctx.check("C18-R5", wf, "err_* columns forced to float", errf,
              "err_* columns must be float even when every value is the "
              "integer-looking -1 marker", node=wf.node)
    # ---------------------------------------------------------------- R6
    ctx.rule("C18-R6", "every advertised extension reaches a writer branch "
             "before the fallback; every readable extension a reader branch")
    gf = prog.func("catalogs.get_table_formats")
    adv = []
    for n in ast.walk(gf.node):
        if isinstance(n, ast.List):
            adv += [e.value for e in n.elts if isinstance(e, ast.Constant)]
    sc = prog.func("catalogs.save_catalog")
    handled = set()
    dict_keys = {}
    for s in walk_no_nested(sc.node):
        if isinstance(s, ast.Assign) and isinstance(s.value, ast.Dict):
            dict_keys[norm(s.targets[0])] = [k.value for k in s.value.keys]
    for iff in walk_no_nested(sc.node):
        if isinstance(iff, ast.If) and isinstance(iff.test, ast.Compare) and \
                isinstance(iff.test.ops[0], ast.In):
            comp = iff.test.comparators[0]
            if isinstance(comp, (ast.List, ast.Tuple, ast.Set)):
                handled |= {e.value for e in comp.elts
                            if isinstance(e, ast.Constant)}
            elif isinstance(comp, ast.Call) and \
                    norm(comp.func).endswith(".keys"):
                handled |= set(dict_keys.get(norm(comp.func.value), []))
            elif isinstance(comp, ast.Name):
                handled |= set(dict_keys.get(comp.id, []))
    ctx.floor("C18-R6", len(adv), 8, "advertised table formats")
    for ext in adv:
        ctx.check("C18-R6", sc, "extension .%s dispatched" % ext,
                  ext in handled, "'.%s' is advertised as supported but "
                  "falls through to the 'extension not recognised' branch" %
                  ext, node=sc.node)

    r7(ctx, prog)
    r8_order(ctx, prog)


# numpy / python scalar types a source attribute can hold, with the classes
# isinstance() accepts them under (numpy's documented scalar hierarchy)
SCALARS = {
    "float": {"float", "numbers.Real", "numbers.Number"},
    "numpy.float64": {"float", "numpy.float64", "numpy.double",
                      "numpy.floating", "numpy.inexact", "numpy.number",
                      "numpy.generic", "numbers.Real", "numbers.Number"},
    "numpy.float32": {"numpy.float32", "numpy.single", "numpy.floating",
                      "numpy.inexact", "numpy.number", "numpy.generic",
                      "numbers.Real", "numbers.Number"},
    "int": {"int", "numbers.Integral", "numbers.Real", "numbers.Number"},
    "numpy.int64": {"numpy.int64", "numpy.integer", "numpy.signedinteger",
                    "numpy.number", "numpy.generic", "numpy.int_",
                    "numbers.Integral", "numbers.Real", "numbers.Number"},
    "numpy.int32": {"numpy.int32", "numpy.integer", "numpy.signedinteger",
                    "numpy.number", "numpy.generic", "numpy.intc",
                    "numbers.Integral", "numbers.Real", "numbers.Number"},
    "str": {"str"},
}
AFFINITY = {"INT": "integer", "INTEGER": "integer", "BIGINT": "integer",
            "FLOAT": "real", "REAL": "real", "DOUBLE": "real",
            "VARCHAR": "text", "TEXT": "text", "CHAR": "text",
            "BOOL": "numeric", "BOOLEAN": "numeric"}
WANT = {"float": "real", "numpy.float64": "real", "numpy.float32": "real",
        "int": "integer", "numpy.int64": "integer", "numpy.int32": "integer",
        "str": "text"}


FITS_AFF = {"J": "integer", "K": "integer", "I": "16-bit integer",
            "E": "real", "D": "real", "A": "text", "L": "numeric"}


def _branch_value(body):
    """the string constant a dispatch branch appends / assigns"""
    for x in body:
        for c in ast.walk(x):
            v = None
            if isinstance(c, ast.Call) and \
                    isinstance(c.func, ast.Attribute) and \
                    c.func.attr == "append" and c.args:
                v = c.args[0]
            elif isinstance(c, ast.Assign):
                v = c.value
            elif isinstance(c, ast.Return):
                v = c.value
            if isinstance(v, ast.Constant) and isinstance(v.value, str):
                return v.value
            if isinstance(v, ast.Call) and \
                    isinstance(v.func, ast.Attribute) and \
                    v.func.attr == "format" and \
                    isinstance(v.func.value, ast.Constant):
                return v.func.value.value
            if isinstance(v, ast.JoinedStr):
                return "".join(p.value for p in v.values
                               if isinstance(p, ast.Constant))
    return None


def r7(ctx, prog):
    ctx.rule("C18-R7", "type dispatch of the sqlite and FITS writers: the "
             "isinstance chains of writeDB.sqlTypes and writeFITSTable."
             "FITSTableType send every scalar type a source field can hold "
             "(python and numpy floats incl. float32 -- numpy.float32 is NOT "
             "a python float --, python and numpy ints, str) to a column "
             "type of the matching kind; a float in a TEXT / 'A' column is "
             "stored as text")
    n = 0
    for outer, inner, table in (
            ("catalogs.writeDB", "sqlTypes", AFFINITY),
            ("catalogs.writeFITSTable", "FITSTableType", FITS_AFF)):
        n += _dispatch(ctx, prog, outer, inner, table)
    ctx.floor("C18-R7", n, 14, "scalar types dispatched")


def _dispatch_chain(prog, st):
    """The isinstance dispatch of helper st as [(accepted class names,
    value of the branch, node)] plus the value of the fall-through case.
    Understands an if/elif chain as well as a sequence of `if ...: return`
    statements followed by the default."""
    mod = prog.modules[st.module]

    def classes(e):
        elts = e.elts if isinstance(e, ast.Tuple) else [e]
        out = set()
        for x in elts:
            d = norm(x) if isinstance(x, ast.Name) and \
                x.id in ("int", "float", "str", "bool", "bytes") else \
                prog.dotted(mod, x)
            if d is None:
                raise AnalysisError("C18-R7: class %s in the isinstance "
                                    "test not resolved" % norm(x))
            out.add(d)
        return out

    def is_disp(x):
        return isinstance(x, ast.If) and isinstance(x.test, ast.Call) and \
            norm(x.test.func) == "isinstance" and len(x.test.args) == 2

    def find(stmts):
        for k, x in enumerate(stmts):
            if is_disp(x):
                return stmts, k
            for sub in ("body", "orelse"):
                if isinstance(x, (ast.For, ast.While, ast.With, ast.Try)) \
                        and getattr(x, sub, None):
                    r = find(getattr(x, sub))
                    if r:
                        return r
        return None
    loc = find(st.node.body)
    if loc is None:
        raise AnalysisError("C18-R7: isinstance chain not found in %s" %
                            st.short)
    stmts, k = loc
    chain, default = [], None
    node = stmts[k]
    while True:
        chain.append((classes(node.test.args[1]), _branch_value(node.body),
                      node))
        if len(node.orelse) == 1 and is_disp(node.orelse[0]):
            node = node.orelse[0]
            continue
        if node.orelse:
            default = _branch_value(node.orelse)
            break
        # no else: the dispatch continues with the following statements
        k = stmts.index(node) if node in stmts else k
        rest = stmts[k + 1:]
        if rest and is_disp(rest[0]):
            node = rest[0]
            k += 1
            continue
        default = _branch_value(rest)
        break
    return chain, default


def _dispatch(ctx, prog, outer, inner, table):
    wd = prog.func(outer)
    st = prog.functions.get(wd.qualname + "." + inner)
    if st is None:
        raise AnalysisError("C18-R7: %s.%s not found" % (outer, inner))
    chain, default = _dispatch_chain(prog, st)

    def aff(code):
        if code is None:
            return None
        c = code.upper().split("(")[0]
        if table is FITS_AFF:
            c = "".join(ch for ch in c if ch.isalpha())[-1:]
        return table.get(c)
    n = 0
    for ty, accepted_as in sorted(SCALARS.items()):
        got = default
        for cls, code, nd in chain:
            if cls & accepted_as:
                got = code
                break
        n += 1
        ctx.check("C18-R7", st, "%s -> %r" % (ty, got), aff(got) == WANT[ty],
                  "a field holding a %s gets the column type %r (%s), "
                  "expected a %s column: the value read back differs in "
                  "type or precision from the one written" %
                  (ty, got, aff(got), WANT[ty]), node=st.node)
    return n


ORDER_CHANGING = {"sorted", "reversed", "set", "frozenset", "np.sort",
                  "np.unique", "numpy.sort", "numpy.unique", "random.shuffle",
                  "np.random.shuffle", "np.random.permutation"}
ORDER_METHODS = {"sort", "reverse"}


def r8_order(ctx, prog):
    ctx.rule("C18-R8", "row order: on the way from the catalogue to a "
             "readable table (classify_catalog, write_catalog and its writer, "
             "writeFITSTable, writeVOTable, writeDB) and back "
             "(load_table, table_to_source_list) nothing sorts, reverses, "
             "de-duplicates or shuffles the sources -- the annotation / "
             "region writers, which cannot be read back, may")
    n = 0
    for short in ("models.classify_catalog", "catalogs.write_catalog",
                  "catalogs.write_catalog.writer", "catalogs.writeFITSTable",
                  "catalogs.writeVOTable", "catalogs.writeDB",
                  "catalogs.load_table", "catalogs.table_to_source_list",
                  "catalogs.write_table", "catalogs.save_catalog"):
        if not prog.has_func(short):
            continue
        fi = prog.func(short)
        n += 1
        bad = []
        for c in walk_no_nested(fi.node):
            if isinstance(c, ast.Call) and (
                    norm(c.func) in ORDER_CHANGING or
                    isinstance(c.func, ast.Attribute) and
                    c.func.attr in ORDER_METHODS):
                bad.append(c)
            if isinstance(c, ast.Subscript) and isinstance(c.slice, ast.Slice) \
                    and c.slice.step is not None and not (
                        isinstance(c.slice.step, ast.Constant) and
                        c.slice.step.value == 1):
                bad.append(c)
        ctx.check("C18-R8", fi, "no reordering in " + fi.short, not bad,
                  "%s changes the order (or multiplicity) of the rows: the "
                  "table read back no longer lists the sources in the order "
                  "of the catalogue" % [norm(b, 50) for b in bad[:3]],
                  node=bad[0] if bad else fi.node)
    ctx.floor("C18-R8", n, 6, "functions on the catalogue <-> table path")


def r9_independent(ctx, prog, cats):
    """each source type is written whatever the other types contain"""
    ctx.rule("C18-R9", "the outputs per source type are independent: where "
             "the classified lists are written in a loop, an empty type "
             "skips only itself (no break / return in the loop); where they "
             "are written one after the other, the write of one type is not "
             "nested in (or chained by elif to) a test on another type and "
             "no return sits between them")
    n = 0
    # the un-normalised tree: the loader inlines the local writer() closure
    for q, fi in ctx.raw_prog().functions.items():
        if fi.module != cats.name:
            continue
        # table writers only (annotation / region files are not catalogues)
        sinks = [c for c in ast.walk(fi.node) if isinstance(c, ast.Call)
                 and norm(c.func).split(".")[-1] in (
                     "write", "writetoVO", "executemany", "writeFITSTable",
                     "writeto")]
        if not sinks:
            continue
        unpacked = set()
        for s in walk_no_nested(fi.node):
            if isinstance(s, ast.Assign) and isinstance(s.value, ast.Call) \
                    and norm(s.value.func) == "classify_catalog" and \
                    isinstance(s.targets[0], ast.Tuple):
                unpacked |= {norm(e) for e in s.targets[0].elts}
        for s in walk_no_nested(fi.node):
            loop = isinstance(s, ast.For) and (any(
                isinstance(c, ast.Call) and
                norm(c.func) == "classify_catalog"
                for c in ast.walk(s.iter)) or
                len(unpacked & names_in(s.iter)) >= 2)
            if loop:
                n += 1
                bad = []

                def scan(stmts, inner):
                    for st in stmts:
                        if isinstance(st, ast.Break) and not inner:
                            bad.append(st)
                        if isinstance(st, ast.Return):
                            bad.append(st)
                        for fld in ("body", "orelse", "finalbody",
                                    "handlers"):
                            sub = getattr(st, fld, None)
                            if isinstance(sub, list):
                                scan([x for x in sub
                                      if isinstance(x, ast.stmt)] +
                                     [y for x in sub
                                      if isinstance(x, ast.ExceptHandler)
                                      for y in x.body],
                                     inner or isinstance(
                                         st, (ast.For, ast.While)))
                scan(s.body, False)
                ctx.check("C18-R9", fi, "per-type loop " + norm(s.iter, 50),
                          not bad, "`%s` inside the loop over the source "
                          "types ends the loop for every LATER type: an "
                          "empty earlier type (no components, say) "
                          "suppresses the tables of the types after it" %
                          (norm(bad[0]) if bad else ""),
                          node=bad[0] if bad else s)
            if isinstance(s, ast.Assign) and isinstance(s.value, ast.Call) \
                    and norm(s.value.func) == "classify_catalog" and \
                    isinstance(s.targets[0], ast.Tuple):
                tg = [norm(e) for e in s.targets[0].elts]
                parents = {}
                for p_ in ast.walk(fi.node):
                    for c_ in ast.iter_child_nodes(p_):
                        parents[c_] = p_
                for c in walk_no_nested(fi.node):
                    if not (isinstance(c, ast.Call) and c.lineno > s.lineno):
                        continue
                    used = [t for t in tg if any(
                        norm(a) == t for a in list(c.args) +
                        [k.value for k in c.keywords])]
                    if len(used) != 1 or norm(c.func) == "len":
                        continue
                    n += 1
                    others = set(tg) - set(used)
                    anc, x = [], c
                    while x in parents:
                        x = parents[x]
                        if isinstance(x, ast.If) and others & names_in(
                                x.test):
                            anc.append(x)
                    rets = [r for r in walk_no_nested(fi.node)
                            if isinstance(r, (ast.Return, ast.Break))
                            and s.lineno < r.lineno < c.lineno]
                    ctx.check("C18-R9", fi, "write of %s: %s" %
                              (used[0], norm(c, 50)), not anc and not rets,
                              "whether %s is written depends on %s" %
                              (used[0], ("the test `%s` on another type" %
                                         norm(anc[0].test, 40)) if anc else
                               ("an earlier `%s`" % norm(rets[0])) if rets
                               else ""), node=c)
    ctx.floor("C18-R9", n, 2, "per-type write sites")


def r10_column_types(ctx, prog, cats):
    """the type of a table column is decided by all of its rows"""
    ctx.rule("C18-R10", "first row atypical: where write_catalog builds the "
             "table columns from the source list, no column is forced to a "
             "dtype / converted with a type taken from ONE element "
             "(dtype=type(vals[0]), astype(type(catalog[0].x))): an int "
             "marker (-1) in the first row would truncate every later float "
             "of that column")
    n = 0
    for q, fi in ctx.raw_prog().functions.items():
        if fi.module != cats.name or "write_catalog" not in q:
            continue
        n += 1
        bad = []
        for c in ast.walk(fi.node):
            if not isinstance(c, ast.Call):
                continue
            cand = [k.value for k in c.keywords if k.arg == "dtype"]
            if isinstance(c.func, ast.Attribute) and c.func.attr == "astype":
                cand += list(c.args)
            for e in cand:
                single = [x for x in ast.walk(e) if isinstance(x, ast.Subscript)
                          and isinstance(x.slice, ast.Constant)
                          and isinstance(x.slice.value, int)]
                if single:
                    bad.append((c, single[0]))
        ctx.check("C18-R10", fi, "column types in " + fi.short, not bad,
                  "`%s` takes the column type from the single element `%s`" %
                  (norm(bad[0][0], 60) if bad else "",
                   norm(bad[0][1]) if bad else ""),
                  node=bad[0][0] if bad else fi.node)
    ctx.floor("C18-R10", n, 1, "table-building functions of write_catalog")


def r11_exact_parsing(ctx, prog, cats):
    """text catalogues are parsed with the exact float converter"""
    ctx.rule("C18-R11", "numeric columns of csv / tab / tex catalogues come "
             "back to full double precision: the astropy readers are called "
             "without `use_fast_converter` (documented by astropy as a "
             "faster but slightly imprecise float parser: about one value "
             "in six is off by 1 ULP) and without a narrowing converter / "
             "dtype")
    n = 0
    for q, fi in prog.functions.items():
        if fi.module != cats.name:
            continue
        for c in walk_no_nested(fi.node):
            if not isinstance(c, ast.Call):
                continue
            kwsets = [c.keywords]
            mult = 1
            if isinstance(c.func, ast.Name):
                # a reader chosen first and called later:
                #   reader = ascii.read | Table.read ; reader(filename)
                defs = [st.value for st in walk_no_nested(fi.node)
                        if isinstance(st, ast.Assign) and
                        any(isinstance(t, ast.Name) and t.id == c.func.id
                            for t in st.targets)]
                readers = [d for d in defs
                           if isinstance(d, ast.Attribute) and
                           d.attr == "read" or isinstance(d, ast.Call) and
                           any(isinstance(a, ast.Attribute) and
                               a.attr == "read" for a in d.args)]
                if not defs or len(readers) != len(defs):
                    continue
                mult = len(defs)
                for d in defs:
                    if isinstance(d, ast.Call):      # partial(ascii.read, ..)
                        kwsets.append(d.keywords)
            elif norm(c.func).split(".")[-1] != "read":
                continue
            n += mult
            bad = []
            for k in [k_ for ks in kwsets for k_ in ks]:
                if k.arg == "fast_reader" and isinstance(k.value, ast.Dict):
                    for kk, vv in zip(k.value.keys, k.value.values):
                        if isinstance(kk, ast.Constant) and \
                                kk.value == "use_fast_converter" and not (
                                    isinstance(vv, ast.Constant) and
                                    vv.value in (False, None, 0)):
                            bad.append("use_fast_converter")
                if k.arg in ("converters", "dtype"):
                    bad.append(k.arg)
            ctx.check("C18-R11", fi, "exact parsing in " + norm(c, 60),
                      not bad, "the reader is called with %s: floats that "
                      "need 16-17 significant digits do not come back "
                      "bit-identical" % bad, node=c)
    ctx.floor("C18-R11", n, 2, "table reader calls in catalogs.py")
