"""C19 -- regrouping = eps-connected partition, independent of row order."""
from __future__ import annotations

import ast

import sympy as sp

from .. import sym, unitrules
from ..core import (PKG, AnalysisError, arg_or_kw, kwarg, names_in, norm,
                    walk_no_nested)

EXPLANATION = (
    "Static analysis of cluster.regroup_dbscan / regroup / resize and the "
    "two callers that convert the linking length. R1 (frame condition): the "
    "regrouping functions store only to .island and .source of their input "
    "objects. R2: island labels come from enumerate(groups), component "
    "labels from enumerate(sorted(group, key)) with a key strictly "
    "decreasing in peak_flux. R3: DBSCAN is built with min_samples=1, the "
    "default (Euclidean) metric and the caller's eps. R4 (sympy): the "
    "embedding (x, y, z) is the unit vector of (ra, dec) in radians, "
    "x^2+y^2+z^2 == 1. R5: the linking length is converted arcsec -> arcmin "
    "-> degrees -> radians and then to the chord 2*sin(theta/2) of the unit "
    "sphere (the Euclidean distance DBSCAN thresholds), at both call sites. "
    "R6: every input index lands in exactly one group (labels -> groups "
    "construction). R7 (sympy): resize with ratio 1 is the identity, "
    "sqrt(a^2 + p^2 (1 - 1/r^2)) at r=1 equals a, and is non-decreasing in r "
    "for r >= 1. DBSCAN's implementation and the elliptical-distance "
    "variant's connectivity are not decided.")
ASSUMPTIONS = ["sklearn DBSCAN(min_samples=1) yields the connected "
               "components of the eps-neighbourhood graph (no noise points)"]

MUTANTS = [
    ("record column b filled with the major axis", "AegeanTools/cluster.py",
     "        [(s.ra, s.dec, s.a, s.b, s.pa, s.peak_flux)",
     "        [(s.ra, s.dec, s.a, s.a, s.pa, s.peak_flux)", "C19-R12"),
    ("singleton groups keep their old component number",
     "AegeanTools/cluster.py",
     "    for isle, group in enumerate(groups):\n",
     "    for isle, group in enumerate(groups):\n"
     "        if len(group) == 1:\n"
     "            group[0].island = isle\n"
     "            islands.append(group)\n"
     "            continue\n", "C19-R2"),
    ("ratio 1 rescales sources with unknown psf", "AegeanTools/cluster.py",
     "            if ratio != 1:\n", "            if ratio != 0:\n",
     "C19-R7"),
    ("matched source appended to the newest group", "AegeanTools/cluster.py",
     "                group.append(idx)\n                break",
     "                groups[-1].append(idx)\n                break", "C19-R9"),
    ("no break after joining", "AegeanTools/cluster.py",
     "                group.append(idx)\n                break",
     "                group.append(idx)", "C19-R9"),
    ("distance to all sources, not to the group", "AegeanTools/cluster.py",
     "if len(group_recs) and dist(rec, group_recs).min() < eps:",
     "if len(group_recs) and dist(rec, srccat).min() < eps:", "C19-R9"),
    ("touches flux", "AegeanTools/cluster.py",
     "            src.island = isle\n            src.source = comp\n"
     "        islands.append(group)\n\n    sources = []\n    for group in "
     "islands:\n        sources.append(group)\n    return sources\n\n\ndef "
     "regroup_vectorized",
     "            src.island = isle\n            src.source = comp\n"
     "            src.flags = 0\n"
     "        islands.append(group)\n\n    sources = []\n    for group in "
     "islands:\n        sources.append(group)\n    return sources\n\n\ndef "
     "regroup_vectorized", "C19-R1"),
    ("ascending flux", "AegeanTools/cluster.py",
     "        for comp, src in enumerate(sorted(group,\n"
     "                                          key=lambda x: -1*x.peak_flux"
     ")):\n            src.island = isle\n            src.source = comp\n"
     "        islands.append(group)\n\n    sources = []\n    for group in "
     "islands:\n        sources.append(group)\n    return sources\n\n\ndef "
     "regroup_vectorized",
     "        for comp, src in enumerate(sorted(group,\n"
     "                                          key=lambda x: x.peak_flux"
     ")):\n            src.island = isle\n            src.source = comp\n"
     "        islands.append(group)\n\n    sources = []\n    for group in "
     "islands:\n        sources.append(group)\n    return sources\n\n\ndef "
     "regroup_vectorized", "C19-R2"),
    ("min_samples 2", "AegeanTools/cluster.py",
     "db = DBSCAN(eps=eps, min_samples=1).fit(X)",
     "db = DBSCAN(eps=eps, min_samples=2).fit(X)", "C19-R3"),
    ("embedding y", "AegeanTools/cluster.py",
     "    y *= np.sin(ras)\n", "    y *= np.sin(decs)\n", "C19-R4"),
    ("degrees into trig", "AegeanTools/cluster.py",
     "    decs = np.radians(np.array([s.dec for s in srccat]))",
     "    decs = np.array([s.dec for s in srccat])", "C19-R4"),
    ("eps arcsec not arcmin", "AegeanTools/source_finder.py",
     "regroup_eps = 4*np.mean([s.a/60 for s in sources])",
     "regroup_eps = 4*np.mean([s.a for s in sources])", "C19-R5"),
    ("eps sine instead of chord", "AegeanTools/CLI/AeReg.py",
     "eps = 2*np.sin(np.radians(options.eps/60)/2)",
     "eps = np.sin(np.radians(options.eps/60))", "C19-R5"),
    ("eps degrees not radians", "AegeanTools/source_finder.py",
     "regroup_eps = 2*np.sin(np.radians(regroup_eps/60)/2)",
     "regroup_eps = 2*np.sin(regroup_eps/60/2)", "C19-R5"),
    ("labels by position", "AegeanTools/cluster.py",
     "group = list(map(srccat.__getitem__, np.where(labels == l)[0]))",
     "group = list(map(srccat.__getitem__, np.where(labels >= l)[0]))",
     "C19-R6"),
    ("resize shrinks", "AegeanTools/cluster.py",
     "                src.a ** 2 + (src.psf_a) ** 2 * (1 - 1 / ratio ** 2)",
     "                src.a ** 2 + (src.psf_a) ** 2 * (1 / ratio ** 2 - 1)",
     "C19-R7"),
    ("resize not identity", "AegeanTools/cluster.py",
     "                src.b ** 2 + (src.psf_b) ** 2 * (1 - 1 / ratio ** 2)",
     "                src.b ** 2 + (src.psf_b) ** 2 * (2 - 1 / ratio ** 2)",
     "C19-R7"),
    ("resize mixes axes", "AegeanTools/cluster.py",
     "                src.b ** 2 + (src.psf_b) ** 2 * (1 - 1 / ratio ** 2)",
     "                src.b ** 2 + (src.psf_a) ** 2 * (1 - 1 / ratio ** 2)",
     "C19-R7"),
    ("unit vectors in single precision (seed C19c)", "AegeanTools/cluster.py",
     "    X = np.hstack([x[:, None], y[:, None], z[:, None]])",
     "    X = np.hstack([x[:, None], y[:, None], z[:, None]]).astype(np.float32)", "C19-R8"),
]
TWINS = [
    ("ratio guard written the other way round", "AegeanTools/cluster.py",
     "            if ratio != 1:\n", "            if not ratio == 1:\n"),
    ("key via reverse", "AegeanTools/cluster.py",
     "    for isle, group in enumerate(groups):\n        for comp, src in "
     "enumerate(sorted(group,\n                                          "
     "key=lambda x: -1*x.peak_flux)):\n            src.island = isle\n"
     "            src.source = comp\n        islands.append(group)\n\n    "
     "sources = []\n    for group in islands:\n        sources.append(group)"
     "\n    return sources\n\n\ndef regroup_vectorized",
     "    for isle, group in enumerate(groups):\n        for comp, src in "
     "enumerate(sorted(group,\n                                          "
     "key=lambda x: x.peak_flux, reverse=True)):\n            src.island = "
     "isle\n            src.source = comp\n        islands.append(group)\n\n"
     "    sources = []\n    for group in islands:\n        "
     "sources.append(group)\n    return sources\n\n\ndef regroup_vectorized"),
]


def run(ctx):
    prog = ctx.prog
    cl = prog.module("cluster")
    rd = prog.func("cluster.regroup_dbscan")
    rg = prog.func("cluster.regroup")
    # ---------------------------------------------------------------- R1
    ctx.rule("C19-R1", "frame condition: only .island and .source are "
             "written on the input sources")
    n1 = 0
    # the regroup functions and the module-private helpers they call
    from .. import callgraph
    g_ = callgraph.build(prog)
    fam = []
    for root in (rd, rg, prog.func("cluster.regroup_vectorized")):
        for q in sorted(callgraph.reachable(g_, [root.qualname])):
            f_ = prog.functions[q]
            if f_.module == cl.name and f_ not in fam and (
                    f_ in (rd, rg) or f_.name.startswith("_") or
                    f_.name == "regroup_vectorized"):
                fam.append(f_)
    for fi in fam:
        for s in walk_no_nested(fi.node):
            tg = []
            if isinstance(s, ast.Assign):
                tg = s.targets
            elif isinstance(s, ast.AugAssign):
                tg = [s.target]
            for t in tg:
                for x in ([t] if not isinstance(t, ast.Tuple) else t.elts):
                    if isinstance(x, ast.Attribute) and \
                            isinstance(x.value, ast.Name) and \
                            x.value.id not in ("self", "log", "db"):
                        n1 += 1
                        ctx.check("C19-R1", fi, "store " + norm(s, 60),
                                  x.attr in ("island", "source"),
                                  "regrouping changes attribute .%s of a "
                                  "source; only island/source labels may "
                                  "change" % x.attr, node=s)
            if isinstance(s, ast.Call) and norm(s.func) in ("setattr",
                                                            "delattr"):
                n1 += 1
                ctx.check("C19-R1", fi, "dynamic store " + norm(s, 60),
                          False, "setattr/delattr on a source", node=s)
    ctx.floor("C19-R1", n1, 2, "attribute stores in the regroup functions")
    # ---------------------------------------------------------------- R2
    ctx.rule("C19-R2", "labels: island = enumerate(groups) index; source = "
             "index in enumerate(sorted(group, key)) with key strictly "
             "decreasing in peak_flux")
    for root in (rd, rg):
        # the labelling loop sits in the function itself or in a private
        # helper it calls
        holders = [f_ for f_ in fam if f_.qualname in callgraph.reachable(
            g_, [root.qualname]) and any(
                isinstance(x, ast.Assign) and
                isinstance(x.targets[0], ast.Attribute) and
                x.targets[0].attr == "island"
                for x in walk_no_nested(f_.node))]
        if len(holders) != 1:
            raise AnalysisError("C19-R2: labelling loop of %s not found "
                                "(%d candidates)" % (root.short,
                                                     len(holders)))
        fi = holders[0]
        outer = [l for l in walk_no_nested(fi.node) if isinstance(l, ast.For)
                 and isinstance(l.iter, ast.Call) and
                 norm(l.iter.func) == "enumerate" and
                 any(isinstance(b, ast.For) for b in l.body) and
                 any(isinstance(s, ast.Assign) and
                     isinstance(s.targets[0], ast.Attribute) and
                     s.targets[0].attr == "island" for s in ast.walk(l))]
        if len(outer) != 1:
            raise AnalysisError("C19-R2: labelling loop not found in %s" %
                                fi.short)
        o = outer[0]
        isle, grp = [norm(e) for e in o.target.elts]
        inner = [l for l in o.body if isinstance(l, ast.For)]
        ok = len(inner) == 1 and isinstance(inner[0].iter, ast.Call) and \
            norm(inner[0].iter.func) == "enumerate"
        key_ok = False
        if ok:
            comp, src = [norm(e) for e in inner[0].target.elts]
            srt = inner[0].iter.args[0]
            if isinstance(srt, ast.Name):
                from .c08 import _resolve_local
                srt = _resolve_local(fi.node, srt)
            ok = isinstance(srt, ast.Call) and norm(srt.func) == "sorted" \
                and norm(srt.args[0]) == grp
            body = [norm(s).replace(" ", "") for s in inner[0].body]
            ok = ok and "%s.island=%s" % (src, isle) in body and \
                "%s.source=%s" % (src, comp) in body
            if ok:
                k = kwarg(srt, "key")
                rev = kwarg(srt, "reverse")
                reverse = isinstance(rev, ast.Constant) and rev.value is True
                if isinstance(k, ast.Lambda):
                    a = k.args.args[0].arg
                    f = sp.Symbol("f", real=True)

                    class T(sym.Translator):
                        def expr(self, n):
                            if isinstance(n, ast.Attribute) and \
                                    n.attr == "peak_flux" and \
                                    norm(n.value) == a:
                                return f
                            return super().expr(n)
                    try:
                        e = T(prog, cl, {}).expr(k.body)
                        d = sp.simplify(sp.diff(e, f))
                        key_ok = (d.is_negative is True and not reverse) or \
                            (d.is_positive is True and reverse)
                    except sym.Untranslatable:
                        key_ok = False
        ctx.check("C19-R2", fi, "labelling loop structure", ok,
                  "expected for isle, group in enumerate(groups): for comp, "
                  "src in enumerate(sorted(group, key=...)): src.island = "
                  "isle; src.source = comp", node=o)
        # both labels are written wherever one is: a path that assigns the
        # island number without the component number leaves a stale one
        def blocks(stmts):
            yield stmts
            for st in stmts:
                for fld in ("body", "orelse", "finalbody"):
                    sub = getattr(st, fld, None)
                    if isinstance(sub, list) and sub and \
                            isinstance(sub[0], ast.stmt):
                        yield from blocks(sub)
        for blk in blocks(o.body):
            isl_st = [st for st in blk if isinstance(st, ast.Assign)
                      and isinstance(st.targets[0], ast.Attribute)
                      and st.targets[0].attr == "island"]
            for st in isl_st:
                obj = norm(st.targets[0].value)
                paired = any(isinstance(x, ast.Assign) and
                             isinstance(x.targets[0], ast.Attribute) and
                             x.targets[0].attr == "source" and
                             norm(x.targets[0].value) == obj for x in blk)
                ctx.check("C19-R2", fi, "island and source written "
                          "together: " + norm(st, 50), paired,
                          "`%s` sets the island number on a path that does "
                          "not set the component number of the same source: "
                          "a source that is alone in its new group keeps the "
                          "component number it had before (numbering is not "
                          "0..n-1)" % norm(st, 50), node=st)
        ctx.check("C19-R2", fi, "flux ordering key", key_ok,
                  "within a group sources must be numbered by decreasing "
                  "peak flux", node=o)
    # ---------------------------------------------------------------- R3
    ctx.rule("C19-R3", "DBSCAN(eps=eps, min_samples=1), default metric")
    dbs = [c for c in walk_no_nested(rd.node) if isinstance(c, ast.Call) and
           prog.resolve_name(cl, norm(c.func)) == "sklearn.cluster.DBSCAN"]
    ctx.floor("C19-R3", len(dbs), 1, "DBSCAN constructions")
    for c in dbs:
        ms = kwarg(c, "min_samples")
        ep = arg_or_kw(c, 0, "eps")
        ctx.check("C19-R3", rd, "DBSCAN arguments " + norm(c),
                  isinstance(ms, ast.Constant) and ms.value == 1 and
                  ep is not None and norm(ep) == "eps" and
                  kwarg(c, "metric") is None,
                  "with min_samples > 1 isolated sources become noise "
                  "(label -1) and are merged into one pseudo-group; a "
                  "non-Euclidean metric breaks the chord conversion",
                  node=c)
    # ---------------------------------------------------------------- R4
    ctx.rule("C19-R4", "embedding: (x,y,z) = (cos ra cos dec, sin ra cos "
             "dec, sin dec) with ra, dec in radians")
    ra, dec = sp.symbols("ra dec", real=True)

    class E(sym.Translator):
        def call(self, n):
            fn = norm(n.func)
            if fn in ("np.array", "numpy.array") and n.args and \
                    isinstance(n.args[0], ast.ListComp):
                lc = n.args[0]
                if isinstance(lc.elt, ast.Attribute) and \
                        lc.elt.attr in ("ra", "dec"):
                    return ra if lc.elt.attr == "ra" else dec
            return super().call(n)
    tr = E(prog, cl, {})
    hs = [c for c in walk_no_nested(rd.node) if isinstance(c, ast.Call) and
          norm(c.func) in ("np.hstack", "np.column_stack", "np.stack",
                           "np.vstack", "np.array")
          and c.args and isinstance(c.args[0], (ast.List, ast.Tuple)) and
          len(c.args[0].elts) == 3]
    if not hs:
        raise AnalysisError("C19-R4: the 3-column feature matrix was not "
                            "found")
    stm = [s for s in rd.node.body if isinstance(s, (ast.Assign,
                                                     ast.AugAssign))
           and s.lineno < hs[0].lineno]
    for st in stm:
        try:
            tr.exec([st])
        except sym.Untranslatable:
            pass

    def col(e):
        # x[:, None] / x[:, np.newaxis] / x.reshape(-1, 1) / x
        if isinstance(e, ast.Subscript):
            e = e.value
        if isinstance(e, ast.Call) and isinstance(e.func, ast.Attribute) \
                and e.func.attr == "reshape":
            e = e.func.value
        return tr.env.get(norm(e))
    x, y, z = [col(e) for e in hs[0].args[0].elts]
    if None in (x, y, z):
        raise AnalysisError("C19-R4: columns of the feature matrix not "
                            "translatable")
    R = sp.pi / 180
    ref = (sp.cos(ra * R) * sp.cos(dec * R), sp.sin(ra * R) * sp.cos(dec * R),
           sp.sin(dec * R))
    ok = all(sym.is_zero(a - b) for a, b in zip((x, y, z), ref))
    ctx.check("C19-R4", rd, "unit vector of (ra, dec)", ok,
              "(x, y, z) = (%s, %s, %s) is not the unit vector of the "
              "position in radians" % (x, y, z), node=stm[0])
    ctx.check("C19-R4", rd, "x^2+y^2+z^2 == 1",
              sym.is_zero(x ** 2 + y ** 2 + z ** 2 - 1),
              "the embedding is not on the unit sphere", node=stm[0])
    fits_ = [c for c in walk_no_nested(rd.node) if isinstance(c, ast.Call)
             and isinstance(c.func, ast.Attribute) and c.func.attr == "fit"
             and c.args]
    okh = bool(fits_) and (
        any(x_ is hs[0] for x_ in ast.walk(fits_[0].args[0])) or
        any(isinstance(d_, ast.Assign) and
            norm(d_.targets[0]) == norm(fits_[0].args[0]) and
            any(x_ is hs[0] for x_ in ast.walk(d_.value))
            for d_ in walk_no_nested(rd.node)))
    ctx.check("C19-R4", rd, "DBSCAN is fitted on the (x, y, z) matrix", okh,
              "DBSCAN must see the three Cartesian coordinates", node=rd.node)
    # ---------------------------------------------------------------- R5
    ctx.rule("C19-R5", "linking length: arcsec/60 -> arcmin; arcmin/60 -> "
             "deg; radians; chord = 2 sin(theta/2)")
    theta = sp.Symbol("theta_arcmin", positive=True)
    sites = [("CLI.AeReg.main", "options.eps"),
             ("source_finder.SourceFinder.priorized_fit_islands",
              "regroup_eps")]
    for short, src in sites:
        fi = prog.func(short)
        mod = prog.modules[fi.module]
        calls = [c for c in walk_no_nested(fi.node) if isinstance(c, ast.Call)
                 and norm(c.func) == "regroup_dbscan"]
        if len(calls) != 1:
            raise AnalysisError("C19-R5: regroup_dbscan call in %s" % short)
        ev = kwarg(calls[0], "eps")
        if ev is None:
            raise AnalysisError("C19-R5: eps= not passed in %s" % short)
        # the assignment that converts the angle into the chord: the last
        # definition of the eps variable before the call
        defs = [s for s in walk_no_nested(fi.node) if isinstance(s, ast.Assign)
                and norm(s.targets[0]) == norm(ev) and
                s.lineno < calls[0].lineno]
        defs.sort(key=lambda s: s.lineno)
        if not defs:
            raise AnalysisError("C19-R5: definition of %s in %s" %
                                (norm(ev), short))
        conv = defs[-1]
        tr = sym.Translator(prog, mod, {})
        tr.env[src] = theta
        try:
            e = tr.expr(conv.value)
        except sym.Untranslatable as ex:
            raise AnalysisError("C19-R5: %s" % ex)
        ref = 2 * sp.sin(theta / 60 * sp.pi / 180 / 2)
        ctx.check("C19-R5", fi, "chord conversion " + norm(conv, 80),
                  sp.simplify(e - ref) == 0,
                  "DBSCAN thresholds the Euclidean (chord) distance of unit "
                  "vectors, which for an angle theta is 2*sin(theta/2); "
                  "found %s (linking length in arcmin = theta)" % e,
                  {"found": str(e), "expected": str(ref)}, conv)
    default_linking_length(ctx, prog, "C19-R5")
    unitrules.apply(ctx, "C19-R5", {"cluster.regroup_dbscan",
                                    "cluster.norm_dist", "cluster.sky_dist"},
                    kinds={"call"}, what="unit contracts in cluster.py",
                    floor=None)
    # ---------------------------------------------------------------- R8
    from .. import precision
    precision.rule(
        ctx, prog, "C19-R8",
        [lambda sh: sh.startswith("cluster.regroup") or sh in (
            "cluster.sky_dist", "cluster.norm_dist",
            "cluster.pairwise_ellpitical_binary"),
         lambda sh: sh.startswith("angle_tools.")],
        "precision: positions, unit vectors and separations are handled in "
        "double precision throughout the grouping (no float32 / float16 "
        "cast): single precision snaps positions to a ~10 mas grid, which "
        "links or separates sources regardless of the linking length",
        "a dtype narrower than float64 is used", floor=5)
    # ---------------------------------------------------------------- R6
    ctx.rule("C19-R6", "partition: group k = the sources whose label equals "
             "the k-th unique label")
    # a loop or comprehension over the unique labels that selects the
    # members with (labels == that label)
    lp = []
    for l in walk_no_nested(rd.node):
        if isinstance(l, ast.For) and "unique_labels" in norm(l.iter):
            tnames = names_in(l.target)
            lp.append((l, tnames, l.body))
        if isinstance(l, (ast.ListComp, ast.GeneratorExp)):
            for gidx, g in enumerate(l.generators):
                if "unique_labels" in norm(g.iter):
                    lp.append((l, names_in(g.target), [ast.Expr(l.elt)]))
    ok = False
    if len(lp) == 1:
        node_, tnames, body_ = lp[0]
        sel = [c for st in body_ for c in ast.walk(st)
               if isinstance(c, ast.Compare) and len(c.ops) == 1 and
               isinstance(c.ops[0], ast.Eq) and
               "labels" in {norm(c.left), norm(c.comparators[0])} and
               ({norm(c.left), norm(c.comparators[0])} - {"labels"}) <=
               tnames]
        other = [c for st in body_ for c in ast.walk(st)
                 if isinstance(c, ast.Compare) and c not in sel and
                 "labels" in names_in(c)]
        ok = len(sel) == 1 and not other
    lp = [x[0] for x in lp]
    ul = [s for s in walk_no_nested(rd.node) if isinstance(s, ast.Assign) and
          norm(s.targets[0]) == "unique_labels"]
    ok = ok and len(ul) == 1 and norm(ul[0].value) == "set(labels)"
    ctx.check("C19-R6", rd, "labels -> groups", ok,
              "each label's members (labels == l) must form exactly one "
              "group", node=lp[0] if lp else rd.node)
    # ---------------------------------------------------------------- R7
    ctx.rule("C19-R7", "resize: ratio 1 is the identity and larger ratios "
             "never shrink a source")
    rs = prog.func("cluster.resize")
    a, p, r = sp.symbols("a p r", positive=True)
    n7 = 0
    for s in walk_no_nested(rs.node):
        if isinstance(s, ast.Assign) and \
                isinstance(s.targets[0], ast.Attribute) and \
                s.targets[0].attr in ("a", "b") and \
                "ratio" in names_in(s.value):
            n7 += 1
            ax = s.targets[0].attr

            class T(sym.Translator):
                def expr(self, n):
                    if isinstance(n, ast.Attribute) and \
                            norm(n.value) == "src":
                        if n.attr == ax:
                            return a
                        if n.attr == "psf_" + ax:
                            return p
                        raise sym.Untranslatable(
                            "axis %s computed from %s" % (ax, norm(n)))
                    return super().expr(n)
            try:
                e = T(prog, cl, {"ratio": r}).expr(s.value)
                ident = sp.simplify(e.subs(r, 1) - a) == 0
                mono = sp.simplify(sp.diff(e ** 2, r)).is_nonnegative
            except sym.Untranslatable as ex:
                ident, mono, e = False, False, str(ex)
            ctx.check("C19-R7", rs, "rescale of %s: %s" % (ax, norm(s, 70)),
                      bool(ident) and mono is True,
                      "expected sqrt(%s^2 + psf_%s^2 (1 - 1/ratio^2)): "
                      "identity at ratio 1, non-decreasing for ratio >= 1; "
                      "found %s" % (ax, ax, e), node=s)
    ctx.floor("C19-R7", n7, 2, "ratio-based rescale statements")
    resize_nan_rule(ctx, prog, "C19-R7")
    r9_greedy(ctx, prog)
    rule_groupby(ctx, prog)
    rule_record_columns(ctx, prog)


def default_linking_length(ctx, prog, rule):
    """the default linking length of priorized fitting is a positive multiple
    of the mean catalogued major axis, converted arcsec -> arcmin (the next
    conversion, shared with the command line, expects arcmin)"""
    pf = prog.func("source_finder.SourceFinder.priorized_fit_islands")
    mod = prog.modules[pf.module]
    d0 = [s for s in walk_no_nested(pf.node) if isinstance(s, ast.Assign) and
          norm(s.targets[0]) == "regroup_eps" and any(
              isinstance(c, ast.Call) and prog.dotted(mod, c.func) in (
                  "numpy.mean", "numpy.nanmean", "numpy.average")
              for c in ast.walk(s.value))]
    ok = False
    found = None
    if len(d0) == 1:
        comps = [c for c in ast.walk(d0[0].value)
                 if isinstance(c, (ast.ListComp, ast.GeneratorExp))]
        if len(comps) == 1 and len(comps[0].generators) == 1 and \
                not comps[0].generators[0].ifs:
            var = norm(comps[0].generators[0].target)
            A = sp.Symbol("a_arcsec", positive=True)
            M = sp.Symbol("mean_of_elements", positive=True)
            tr = sym.Translator(prog, mod, {})
            tr.env[var + ".a"] = A
            try:
                elt = tr.expr(comps[0].elt)

                class T2(sym.Translator):
                    def call(self, n):
                        if prog.dotted(mod, n.func) in (
                                "numpy.mean", "numpy.nanmean",
                                "numpy.average"):
                            return M
                        return super().call(n)
                outer = T2(prog, mod, {}).expr(d0[0].value)
                found = "%s with elements %s" % (outer, elt)
                k = sp.simplify(outer / M)
                ok = sp.simplify(elt - A / 60) == 0 and k.is_number and \
                    k > 0
            except (sym.Untranslatable, TypeError) as e:
                found = "not translatable: %s" % e
    ctx.check(rule, pf, "default linking length " +
              (norm(d0[0], 70) if d0 else "?"), ok,
              "the default must be a positive multiple of the mean major "
              "axis converted from arcsec to arcmin (/60): the value is "
              "divided by 60 again and taken as degrees, so any other "
              "conversion makes blends be fitted one by one (or everything "
              "jointly); found %s" % found, node=d0[0] if d0 else pf.node)


def r9_greedy(ctx, prog):
    """the elliptical-distance variant: a source joins the group it was
    compared with, exactly once"""
    ctx.rule("C19-R9", "greedy grouping (regroup_vectorized): inside the "
             "loop over the existing groups the source is appended to the "
             "group whose members it was just compared with (the loop "
             "variable), the distance is evaluated on members of that group, "
             "the search stops after joining (break), and only when no group "
             "matched is a new singleton group created (for ... else)")
    fi = prog.func("cluster.regroup_vectorized")
    outer = [l for l in walk_no_nested(fi.node) if isinstance(l, ast.For)
             and any(isinstance(x, ast.For) for b in l.body
                     for x in ast.walk(b))]
    if not outer:
        raise AnalysisError("C19-R9: source loop / group loop of "
                            "regroup_vectorized not found")
    o = outer[0]
    idx = norm(o.target)
    inner = [x for b in o.body for x in ast.walk(b) if isinstance(x, ast.For)]
    gl = inner[0]
    gvar = norm(gl.target)
    # names derived from the loop variable inside the inner loop
    derived = {gvar}
    changed = True
    while changed:
        changed = False
        for st in ast.walk(gl):
            if isinstance(st, ast.Assign) and isinstance(
                    st.targets[0], ast.Name) and \
                    st.targets[0].id not in derived and \
                    derived & names_in(st.value):
                derived.add(st.targets[0].id)
                changed = True
    dparam = fi.params[-1] if "dist" in fi.params else None
    joins = []
    for iff in ast.walk(gl):
        if not isinstance(iff, ast.If):
            continue
        dcalls = [c for c in ast.walk(iff.test) if isinstance(c, ast.Call)
                  and norm(c.func) == "dist"]
        if not dcalls or "eps" not in names_in(iff.test):
            continue
        apps = [c for b in iff.body for c in ast.walk(b)
                if isinstance(c, ast.Call) and
                isinstance(c.func, ast.Attribute) and
                c.func.attr in ("append", "extend", "add")]
        joins.append((iff, dcalls, apps))
    ctx.floor("C19-R9", len(joins), 1, "join sites (distance test followed "
              "by an append)")
    for iff, dcalls, apps in joins:
        ok_d = all(derived & names_in(c) for c in dcalls)
        ctx.check("C19-R9", fi, "distance evaluated on the group's members: "
                  + norm(iff.test, 60), ok_d,
                  "the distance test does not involve the members of the "
                  "group being visited (%s)" % gvar, node=iff)
        recv = [norm(c.func.value) for c in apps]
        ctx.check("C19-R9", fi, "join target %s" % recv,
                  recv == [gvar] and all(
                      c.args and norm(c.args[0]) == idx for c in apps),
                  "the source that matched group `%s` is appended to %s: it "
                  "lands in a group none of whose members it is linked to, "
                  "so that group is no longer chain-connected (and the "
                  "matched group misses a member)" % (gvar, recv),
                  node=apps[0] if apps else iff)
        brk = any(isinstance(b, ast.Break) for b in iff.body)
        ctx.check("C19-R9", fi, "search stops after joining", brk,
                  "without `break` the source may join several groups (no "
                  "partition)", node=iff)
    news = [c for b in gl.orelse for c in ast.walk(b)
            if isinstance(c, ast.Call) and isinstance(c.func, ast.Attribute)
            and c.func.attr == "append"]
    ok_n = len(news) == 1 and isinstance(news[0].args[0], ast.List) and \
        [norm(e) for e in news[0].args[0].elts] == [idx] and \
        norm(news[0].func.value) == norm(_iter_base(gl.iter))
    ctx.check("C19-R9", fi, "unmatched source opens a singleton group", ok_n,
              "the else clause of the group loop must append [%s] to the "
              "list of groups" % idx, node=gl)


def _iter_base(e):
    while isinstance(e, ast.Call) and e.args:
        e = e.args[0]
    return e


def resize_nan_rule(ctx, prog, rule):
    """resize with an UNKNOWN catalogue psf (sources built from a table
    without psf columns carry psf_a = psf_b = nan): ratio 1 must still be the
    identity, and the psf sanity test must not exclude such sources.  The
    guards of the source are interpreted for nan / positive / non-positive
    psf values (shared by C19-R7 and C05-R10)."""
    from ..concrete import Unknown, ev
    rs = prog.func("cluster.resize")
    nan = float("nan")
    parents = {}
    for p_ in ast.walk(rs.node):
        for c_ in ast.iter_child_nodes(p_):
            parents[c_] = p_

    def guards(st):
        """[(test, branch taken to reach st)]"""
        out, x = [], st
        while x in parents:
            par = parents[x]
            if isinstance(par, ast.If):
                out.append((par.test, any(x is b for b in par.body)))
            x = par
        return out
    n = 0
    # (b) rescale statements at ratio 1
    for s_ in walk_no_nested(rs.node):
        if isinstance(s_, ast.Assign) and \
                isinstance(s_.targets[0], ast.Attribute) and \
                s_.targets[0].attr in ("a", "b") and \
                "ratio" in names_in(s_.value):
            n += 1
            reached = True
            for test, branch in guards(s_):
                if "ratio" not in names_in(test):
                    continue
                try:
                    if bool(ev(test, {"ratio": 1, "None": None})) != branch:
                        reached = False
                except Unknown:
                    pass
            uses_psf = any(isinstance(x, ast.Attribute) and
                           x.attr.startswith("psf_")
                           for x in ast.walk(s_.value))
            ctx.check(rule, rs, "ratio 1 with unknown psf: " + norm(s_, 60),
                      not (reached and uses_psf),
                      "at ratio 1 this statement still evaluates psf**2 * "
                      "(1 - 1/ratio**2) = nan * 0 = nan for a source whose "
                      "catalogue psf is unknown (no psf columns): its shape "
                      "becomes nan and the source is then excluded, so "
                      "ratio 1 is not the identity and the whole catalogue "
                      "is dropped", node=s_)
    # (a) exclusion tests on the psf
    for iff in walk_no_nested(rs.node):
        if not isinstance(iff, ast.If):
            continue
        psf_attrs = sorted({norm(x) for x in ast.walk(iff.test)
                            if isinstance(x, ast.Attribute) and
                            x.attr in ("psf_a", "psf_b")})
        excl = any(isinstance(st, ast.Assign) and
                   isinstance(st.targets[0], ast.Subscript) and
                   isinstance(st.value, ast.Constant) and
                   st.value.value is False for b in iff.body
                   for st in ast.walk(b))
        if not psf_attrs or not excl:
            continue
        n += 1
        try:
            at_nan = bool(ev(iff.test, {k: nan for k in psf_attrs}))
            at_pos = bool(ev(iff.test, {k: 30.0 for k in psf_attrs}))
        except Unknown as u:
            ctx.unknown_site(rule, rs, "psf exclusion test %s not "
                             "interpreted (%s)" % (norm(iff.test, 50), u),
                             node=iff)
            continue
        ctx.check(rule, rs, "psf exclusion test " + norm(iff.test, 60),
                  not at_nan and not at_pos,
                  "the test excludes a source whose psf is %s: sources from "
                  "a catalogue without psf columns (psf = nan) must be kept "
                  "-- their beam is taken from the image" %
                  ("unknown (nan)" if at_nan else "positive"), node=iff)
    ctx.floor(rule, n, 3, "rescale statements and psf exclusion tests of "
              "resize")


def rule_record_columns(ctx, prog, rule="C19-R12"):
    """the record array handed to the elliptical-distance regrouping holds,
    under each column name, the attribute of that name"""
    ctx.rule(rule, "writer / reader agreement of the record array of "
             "cluster.regroup: np.rec.fromrecords([(s.<x0>, s.<x1>, ...) for "
             "s in ...], names=[n0, n1, ...]) stores attribute n_k in column "
             "n_k (the distance functions read the columns by name)")
    n = 0
    for q, fi in sorted(prog.functions.items()):
        if not fi.module.endswith("cluster"):
            continue
        for c in walk_no_nested(fi.node):
            if not (isinstance(c, ast.Call) and
                    norm(c.func).split(".")[-1] in ("fromrecords",
                                                    "fromarrays") and
                    c.args):
                continue
            names = kwarg(c, "names")
            if isinstance(names, ast.Name):
                from .c08 import _resolve_local as _rl12
                names = _rl12(fi.node, names)
            rows = c.args[0]
            if isinstance(rows, ast.Name):
                from .c08 import _resolve_local as _rl12
                rows = _rl12(fi.node, rows)
            if not (isinstance(names, (ast.List, ast.Tuple)) and
                    isinstance(rows, (ast.ListComp, ast.GeneratorExp)) and
                    isinstance(rows.elt, ast.Tuple)):
                ctx.unknown_site(rule, fi, "record array not built from a "
                                 "comprehension of tuples with literal "
                                 "names", node=c)
                continue
            n += 1
            want = [e.value for e in names.elts
                    if isinstance(e, ast.Constant)]
            got = [e.attr if isinstance(e, ast.Attribute) else norm(e)
                   for e in rows.elt.elts]
            ctx.check(rule, fi, "columns %s filled with %s" % (want, got),
                      want == got, "column %r is filled with attribute %r: "
                      "the elliptical distance then uses the wrong quantity "
                      "(e.g. the major axis as the minor axis: every source "
                      "is treated as a circle of radius a)" %
                      next(((w, g) for w, g in zip(want, got) if w != g),
                           ("?", "?")), node=c)
    ctx.floor(rule, n, 1, "record arrays built in cluster.py")


def rule_groupby(ctx, prog):
    from ..core import unsorted_groupby
    ctx.rule("C19-R10", "any row order: itertools.groupby (which merges only "
             "consecutive equal keys) is applied only to sequences sorted by "
             "the grouping key in the module cluster -- otherwise members of one cluster that are not adjacent rows end up in different groups: the grouping depends on the row order")
    n = 0
    for q, fi in sorted(prog.functions.items()):
        if not fi.module.endswith("cluster"):
            continue
        n += 1
        bad = unsorted_groupby(prog, fi)
        ctx.check("C19-R10", fi, "groupby inputs sorted in " + fi.short, not bad,
                  bad[0][1] if bad else "", node=bad[0][0] if bad else fi.node)
    ctx.floor("C19-R10", n, 5, "functions examined for groupby")
