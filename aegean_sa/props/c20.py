"""C20 -- image bands tile the image exactly and keep its astrometry."""
from __future__ import annotations

import ast
import itertools

import sympy as sp

from .. import sym
from ..cfg import CFG, ENTRY, EXIT
from ..core import AnalysisError, names_in, norm, walk_no_nested

EXPLANATION = (
    "Static analysis of fits_tools.load_image_band. R1: the two band "
    "boundary expressions are exact integer arithmetic (floor division or "
    "round) -- int() applied to an expression containing true division is a "
    "truncation of an inexact float and is rejected; symbolically "
    "(sympy, floor semantics) boundary(i+1 of band i) == boundary(i of band "
    "i+1), boundary(0) == 0 and boundary(n) == NAXIS2. R2: on the CFG every "
    "path to a normal return passes the NAXIS2 and CRPIX2 header updates "
    "(compressed inputs included). R3: the validation guards are tabulated "
    "over all order types of (band0, band1, 0) on a small integer grid and "
    "compared with 'accepted iff 0 <= band0 < band1'. R4: the slice bounds "
    "used for the data are the names used for the header update and every "
    "returned data expression is sliced by them. Pixel values for scaled "
    "integer images are not decided.")
ASSUMPTIONS = ["header['NAXIS2'] and the band tuple are Python ints",
               "sympy floor() models Python // on non-negative ints"]


MUTANTS = [
    ("reference row moved the wrong way", "AegeanTools/fits_tools.py",
     "        header['CRPIX2'] -= row_min\n        return data, header\n\n    # Figure",
     "        header['CRPIX2'] += row_min\n        return data, header\n\n    # Figure",
     "C20-R9"),
    ("band height announced as hi + lo", "AegeanTools/fits_tools.py",
     "    # adjust the header to match the data shape\n"
     "    header['NAXIS2'] = row_max-row_min\n    header['CRPIX2'] -= row_min\n"
     "    return data, header\n",
     "    # adjust the header to match the data shape\n"
     "    header['NAXIS2'] = row_max+row_min\n    header['CRPIX2'] -= row_min\n"
     "    return data, header\n", "C20-R9"),
    ("first column dropped from 2-d bands", "AegeanTools/fits_tools.py",
     "            data = a[hdu_index].section[row_min:row_max, 0:header['NAXIS1']]",
     "            data = a[hdu_index].section[row_min:row_max, 1:header['NAXIS1']]",
     "C20-R10"),
    ("band edges from a float rows-per-band", "AegeanTools/fits_tools.py",
     "    row_min = header['NAXIS2'] * band[0] // band[1]\n"
     "    row_max = header['NAXIS2'] * (band[0]+1) // band[1]\n",
     "    rows_per_band = header['NAXIS2'] / band[1]\n"
     "    row_min = int(rows_per_band * band[0])\n"
     "    row_max = int(rows_per_band * (band[0]+1))\n", "C20-R1"),
    ("BSCALE applied to the global row range of a local block",
     "AegeanTools/fits_tools.py",
     "        data *= header['BSCALE']",
     "        data[row_min:row_max, :] *= header['BSCALE']", "C20-R6"),
    ("compressed files recognised by truth value", "AegeanTools/fits_tools.py",
     "    return all(a in header for a in\n",
     "    return all(header.get(a) for a in\n", "C20-R8"),
    ("float truncation", "AegeanTools/fits_tools.py",
     "    row_max = header['NAXIS2'] * (band[0]+1) // band[1]",
     "    row_max = int(header['NAXIS2']/band[1] * (band[0]+1))", "C20-R1"),
    ("fixed band height", "AegeanTools/fits_tools.py",
     "    row_min = header['NAXIS2'] * band[0] // band[1]\n    row_max = "
     "header['NAXIS2'] * (band[0]+1) // band[1]",
     "    band_height = header['NAXIS2'] // band[1]\n    row_min = "
     "band_height * band[0]\n    row_max = row_min + band_height", "C20-R1"),
    ("overlapping bands", "AegeanTools/fits_tools.py",
     "    row_max = header['NAXIS2'] * (band[0]+1) // band[1]",
     "    row_max = header['NAXIS2'] * (band[0]+1) // band[1] + 1",
     "C20-R1"),
    ("compressed header untouched", "AegeanTools/fits_tools.py",
     "        data = hdulist[0].data[row_min:row_max, :]\n        # adjust "
     "the header to match the data shape\n        header['NAXIS2'] = "
     "row_max-row_min\n        header['CRPIX2'] -= row_min\n        return "
     "data, header",
     "        data = hdulist[0].data[row_min:row_max, :]\n        return "
     "data, header", "C20-R2"),
    ("crpix not shifted", "AegeanTools/fits_tools.py",
     "    header['NAXIS2'] = row_max-row_min\n    header['CRPIX2'] -= "
     "row_min\n    return data, header",
     "    header['NAXIS2'] = row_max-row_min\n    return data, header",
     "C20-R2"),
    ("band equal to total accepted", "AegeanTools/fits_tools.py",
     "    elif band[0] >= band[1]:", "    elif band[0] > band[1]:",
     "C20-R3"),
    ("negative band accepted", "AegeanTools/fits_tools.py",
     "    elif band[0] < 0:\n        raise AegeanError(\"band[0] number {0} "
     "not valid\".format(band[0]))\n", "", "C20-R3"),
    ("header uses other bound", "AegeanTools/fits_tools.py",
     "    header['NAXIS2'] = row_max-row_min\n    header['CRPIX2'] -= "
     "row_min\n    return data, header",
     "    header['NAXIS2'] = row_max-row_min\n    header['CRPIX2'] -= "
     "row_max\n    return data, header", "C20-R4"),
    ("4-d plane indices swapped (seed C20c)", "AegeanTools/fits_tools.py",
     "            data = a[hdu_index].section[0, cube_index,",
     "            data = a[hdu_index].section[cube_index, 0,", "C20-R5"),
    ("raw values divided by BSCALE", "AegeanTools/fits_tools.py",
     "        data *= header['BSCALE']", "        data /= header['BSCALE']", "C20-R6"),
    ("expanded images are memoised (seed C20d)", "AegeanTools/fits_tools.py",
     "def expand(datafile, outfile=None):",
     "import functools\n\n\n@functools.lru_cache(maxsize=4)\ndef expand(datafile, outfile=None):", "C20-R7"),
]
TWINS = [
    ("explicit floor division helper", "AegeanTools/fits_tools.py",
     "    row_min = header['NAXIS2'] * band[0] // band[1]",
     "    row_min = (band[0] * header['NAXIS2']) // band[1]"),
]



def run(ctx):
    prog = ctx.raw_prog()     # the rules anchor on the boundary names
    fi = prog.func("fits_tools.load_image_band")
    mod = prog.modules[fi.module]
    band = fi.params[1]
    # ---- locate boundary definitions: names used as row slice bounds -----
    bounds = None
    slice_objs = {}
    for s in walk_no_nested(fi.node):
        if isinstance(s, ast.Assign) and isinstance(s.value, ast.Call) and \
                norm(s.value.func) == "slice" and len(s.value.args) == 2 and \
                all(isinstance(a, ast.Name) for a in s.value.args) and \
                isinstance(s.targets[0], ast.Name):
            slice_objs[s.targets[0].id] = (s.value.args[0].id,
                                           s.value.args[1].id)
    for s in walk_no_nested(fi.node):
        if isinstance(s, ast.Subscript) and isinstance(s.slice, ast.Tuple) \
                and len(s.slice.elts) >= 2:
            sl = s.slice.elts[-2]
            if isinstance(sl, ast.Slice) and isinstance(sl.lower, ast.Name) \
                    and isinstance(sl.upper, ast.Name):
                bounds = (sl.lower.id, sl.upper.id)
            elif isinstance(sl, ast.Name) and sl.id in slice_objs:
                bounds = slice_objs[sl.id]
    if bounds is None:
        raise AnalysisError("C20: row slice [lo:hi, ...] not found")
    lo, hi = bounds
    defs = {}
    for s in walk_no_nested(fi.node):
        if isinstance(s, ast.Assign) and isinstance(s.targets[0], ast.Name) \
                and s.targets[0].id in bounds:
            defs.setdefault(s.targets[0].id, []).append(s)
    if any(len(defs.get(b, [])) < 1 for b in bounds) or any(
            not any(st is d for st in fi.node.body)
            for b in bounds for d in defs[b] if len(defs[b]) > 1):
        # (several straight-line definitions are composed in order; a
        # re-definition inside a branch is not understood)
        raise AnalysisError("C20: boundary definitions not understood: %s" %
                            {k: len(v) for k, v in defs.items()})
    for b in bounds:
        defs[b].sort(key=lambda st: st.lineno)
    # ---------------------------------------------------------------- R1
    ctx.rule("C20-R1", "band boundaries are exact integer arithmetic; "
             "consecutive; first is 0 and last is NAXIS2")
    N = sp.Symbol("N", integer=True, positive=True)
    n = sp.Symbol("n", integer=True, positive=True)
    i = sp.Symbol("i", integer=True, nonnegative=True)
    exprs = {}
    for b in bounds:
        d = defs[b][-1]           # the value the slices see
        v = d.value
        inexact = None
        from ..core import expand_locals
        if len(defs[b]) == 1:
            v = expand_locals(fi.node, v)
        for c in ast.walk(v):
            if isinstance(c, ast.Call) and norm(c.func) == "int" and c.args \
                    and any(isinstance(x, ast.BinOp) and
                            isinstance(x.op, ast.Div)
                            for x in ast.walk(c.args[0])):
                inexact = c
        has_div = any(isinstance(x, ast.BinOp) and isinstance(x.op, ast.Div)
                      for x in ast.walk(v))
        rounded = any(isinstance(c, ast.Call) and norm(c.func) in
                      ("round", "np.round", "np.rint")
                      for c in ast.walk(v))
        ctx.check("C20-R1", fi, "boundary %s = %s" % (b, norm(v)),
                  inexact is None and (not has_div or rounded),
                  "int() truncates an inexact float: NAXIS2/n*k can evaluate "
                  "to just below the integer it should be (e.g. 3*(7/3)), "
                  "so the last band ends one row early and a row of the "
                  "image belongs to no band; use (NAXIS2*k)//n",
                  {"expr": norm(v)}, d)
        # symbolic form with floor semantics for int()/'//'
        class T(sym.Translator):
            def call(self, node):
                if isinstance(node.func, ast.Name) and \
                        node.func.id == "int" and node.args:
                    return sp.floor(self.expr(node.args[0]))
                return super().call(node)
        tr = T(prog, mod, {})
        tr.env["%s['NAXIS2']" % "header"] = N
        tr.env[band + "[0]"] = i
        tr.env[band + "[1]"] = n
        # value-number the simple assignments that precede the definition
        for st in sorted((x for x in walk_no_nested(fi.node)
                          if isinstance(x, ast.Assign) and
                          isinstance(x.targets[0], ast.Name) and
                          x.lineno < d.lineno), key=lambda x: x.lineno):
            try:
                tr.exec([st])
            except sym.Untranslatable:
                pass
        tr.env["%s['NAXIS2']" % "header"] = N
        try:
            exprs[b] = tr.expr(v)
        except sym.Untranslatable as e:
            raise AnalysisError("C20-R1: cannot translate %s: %s" %
                                (norm(v), e))
    e_lo, e_hi = exprs[lo], exprs[hi]
    consecutive = sp.simplify(e_lo.subs(i, i + 1) - e_hi) == 0
    ctx.check("C20-R1", fi, "consecutive bands", consecutive,
              "upper boundary of band i (%s) is not the lower boundary of "
              "band i+1 (%s)" % (e_hi, e_lo.subs(i, i + 1)),
              {"lo": str(e_lo), "hi": str(e_hi)}, defs[hi][0])
    first = sp.simplify(e_lo.subs(i, 0)) == 0
    ctx.check("C20-R1", fi, "first boundary is 0", first,
              "boundary(0) = %s" % sp.simplify(e_lo.subs(i, 0)),
              node=defs[lo][0])
    last = sp.simplify(e_hi.subs(i, n - 1))
    ok_last = sp.simplify(last - N) == 0
    ctx.check("C20-R1", fi, "last boundary is NAXIS2", ok_last,
              "over the reals boundary(n) = %s, not NAXIS2" % last,
              node=defs[hi][0])
    # ---------------------------------------------------------------- R2
    ctx.rule("C20-R2", "every path to a normal return passes the NAXIS2 and "
             "CRPIX2 header updates")
    g = CFG(fi.node)
    upd = {"NAXIS2": [], "CRPIX2": []}
    upd_values = {"NAXIS2": [], "CRPIX2": []}   # (stmt, names used)

    def key_stores(fnode):
        out = []
        for s_ in walk_no_nested(fnode):
            tg_ = s_.targets[0] if isinstance(s_, ast.Assign) else (
                s_.target if isinstance(s_, ast.AugAssign) else None)
            if isinstance(tg_, ast.Subscript) and \
                    isinstance(tg_.slice, ast.Constant) and \
                    tg_.slice.value in upd:
                out.append((s_, tg_))
        return out
    for nn, s in g.stmt.items():
        if g.kind[nn] not in ("stmt", "return"):
            continue
        for st_, tg in key_stores(ast.Module([s], [])) if isinstance(
                s, (ast.Assign, ast.AugAssign)) else []:
            upd[tg.slice.value].append(nn)
            upd_values[tg.slice.value].append((s, _update_names(s, tg)))
        # helper(header, lo, hi) that stores the keys on its parameter --
        # called as a statement, in an assignment or in the return itself
        if not isinstance(s, (ast.Expr, ast.Assign, ast.Return)):
            continue
        for call_ in [c for c in ast.walk(s) if isinstance(c, ast.Call)]:
            q = prog.resolve_name(mod, norm(call_.func)) \
                if isinstance(call_.func, ast.Name) else None
            h = prog.functions.get(q)
            if h is not None and len(call_.args) <= len(h.params):
                bind = dict(zip(h.params, [norm(a) for a in call_.args]))
                bind.update({k.arg: norm(k.value) for k in call_.keywords
                             if k.arg})
                for st_, tg in key_stores(h.node):
                    if bind.get(norm(tg.value)) == "header":
                        upd[tg.slice.value].append(nn)
                        upd_values[tg.slice.value].append(
                            (s, {bind.get(x, x) for x in
                                 _update_names(st_, tg)}))
    rets = [nn for nn, s in g.stmt.items() if g.kind[nn] == "return"]
    if not rets:
        raise AnalysisError("C20-R2: no return statement")
    for key, nodes in upd.items():
        for rn in rets:
            p = g.path_avoiding(ENTRY, rn, nodes) if nodes else [ENTRY, rn]
            if rn in nodes:
                p = None            # the return expression performs it
            ctx.check("C20-R2", fi, "%s updated before %s" %
                      (key, norm(g.stmt[rn], 60)), p is None,
                      "a path reaches this return without adjusting %s: the "
                      "band's header still describes the full image, so its "
                      "pixels map to the wrong sky positions" % key,
                      node=g.stmt[rn], path=g.describe(p) if p else None)
    # ---------------------------------------------------------------- R3
    ctx.rule("C20-R3", "validation: accepted iff 0 <= band[0] < band[1] "
             "(tabulated over order types)")
    guards = []
    alias = {}          # local name -> expression over `band`
    for s in fi.node.body:
        if isinstance(s, ast.Expr) and isinstance(s.value, ast.Constant):
            continue                         # docstring
        if isinstance(s, ast.Assign) and len(s.targets) == 1 and \
                names_in(s.value) <= {band} | set(alias) and \
                names_in(s.value) and not any(
                    isinstance(x, ast.Call) for x in ast.walk(s.value)):
            # this_band = band[0] / n_bands = band[1] / a, b = band
            t = s.targets[0]
            if isinstance(t, ast.Name):
                alias[t.id] = s.value
                continue
            if isinstance(t, (ast.Tuple, ast.List)) and \
                    all(isinstance(e, ast.Name) for e in t.elts):
                for k_, e in enumerate(t.elts):
                    alias[e.id] = s.value.elts[k_] if isinstance(
                        s.value, (ast.Tuple, ast.List)) else ast.Subscript(
                            value=s.value, slice=ast.Constant(k_),
                            ctx=ast.Load())
                continue
        if isinstance(s, ast.If) and names_in(s.test) & ({band} |
                                                         set(alias)):
            cur = s
            while True:
                raises = any(isinstance(x, ast.Raise) for x in cur.body)
                guards.append((cur.test, raises))
                if len(cur.orelse) == 1 and isinstance(cur.orelse[0], ast.If):
                    cur = cur.orelse[0]
                else:
                    if cur.orelse:
                        raise AnalysisError("C20-R3: guard chain ends in an "
                                            "else block")
                    break
            continue      # further independent guards may follow
        if guards:
            break
    if not guards:
        raise AnalysisError("C20-R3: validation guards not found")

    def ev(e, b0, b1):
        if isinstance(e, ast.Constant):
            return e.value
        if isinstance(e, ast.Name) and e.id in alias:
            return ev(alias[e.id], b0, b1)
        if isinstance(e, ast.Subscript) and isinstance(e.value, ast.Name) \
                and e.value.id in alias and \
                isinstance(e.slice, ast.Constant):
            return ev(ast.Subscript(value=alias[e.value.id], slice=e.slice,
                                    ctx=ast.Load()), b0, b1)
        if isinstance(e, ast.Subscript) and norm(e.value) == band and \
                isinstance(e.slice, ast.Constant):
            return (b0, b1)[e.slice.value]
        if isinstance(e, ast.UnaryOp) and isinstance(e.op, ast.USub):
            return -ev(e.operand, b0, b1)
        if isinstance(e, ast.UnaryOp) and isinstance(e.op, ast.Not):
            return not ev(e.operand, b0, b1)
        if isinstance(e, ast.BoolOp):
            vs = [ev(v, b0, b1) for v in e.values]
            return all(vs) if isinstance(e.op, ast.And) else any(vs)
        if isinstance(e, ast.Compare):
            l = ev(e.left, b0, b1)
            res = True
            for op, c in zip(e.ops, e.comparators):
                r = ev(c, b0, b1)
                res = res and {ast.Lt: l < r, ast.LtE: l <= r, ast.Gt: l > r,
                               ast.GtE: l >= r, ast.Eq: l == r,
                               ast.NotEq: l != r}[type(op)]
                l = r
            return res
        raise AnalysisError("C20-R3: guard expression %s not tabulable" %
                            norm(e))
    bad = []
    cases = 0
    for b0, b1 in itertools.product(range(-2, 4), repeat=2):
        cases += 1
        rejected = False
        for test, raises in guards:
            if ev(test, b0, b1):
                rejected = raises
                break
        want = not (0 <= b0 < b1)
        if rejected != want:
            bad.append((b0, b1, rejected))
    ctx.check("C20-R3", fi, "guard table over %d (band0, band1) cases" %
              cases, not bad, "guards disagree with 'accepted iff "
              "0 <= band0 < band1' for (band0, band1, rejected) in %s" %
              bad[:6], {"guards": [norm(t) for t, _ in guards]},
              fi.node.body[1] if len(fi.node.body) > 1 else fi.node)
    # ---------------------------------------------------------------- R4
    ctx.rule("C20-R4", "data and header use the same row bounds; every "
             "returned data array is sliced [lo:hi]")
    from .c08 import _resolve_local

    def expand(names, depth=0):
        """replace named intermediates (n_rows = hi - lo) by what they are
        made of, down to the row bounds"""
        out = set()
        for nm in names:
            if nm in (lo, hi) or depth > 4:
                out.add(nm)
                continue
            r = _resolve_local(fi.node, ast.Name(id=nm, ctx=ast.Load()))
            if isinstance(r, ast.Name) and r.id == nm:
                out.add(nm)
            else:
                out |= expand(names_in(r), depth + 1)
        return out
    for key, vals in upd_values.items():
        for s, used in vals:
            used = expand(used)
            want = {lo, hi} if key == "NAXIS2" else {lo}
            ctx.check("C20-R4", fi, "header update of %s in %s" %
                      (key, norm(s, 60)), used == want,
                      "%s must be derived from %s; uses %s" %
                      (key, sorted(want), sorted(used)), node=s)
    for rn in rets:
        s = g.stmt[rn]
        if not isinstance(s.value, ast.Tuple) or len(s.value.elts) != 2:
            raise AnalysisError("C20-R4: return shape %s" % norm(s))
        d = s.value.elts[0]
        ok = _sliced_by(fi.node, d, lo, hi)
        ctx.check("C20-R4", fi, "returned data " + norm(d, 60), ok,
                  "the returned data is not the [%s:%s] row slice" % (lo, hi),
                  node=s)
    r9_header_model(ctx, prog, fi)
    r10_whole_rows(ctx, prog, fi)
    r5_planes(ctx, prog)
    r6_bscale(ctx, prog, fi)
    r7_fresh(ctx, prog)
    ctx.rule("C20-R8", "compressed auxiliary files are recognised by the "
             "PRESENCE of the BN_* keywords, so that a residual of 0 (axis a "
             "multiple of the factor) still expands (shared with C15-R1)")
    from .c15 import presence_rule
    presence_rule(ctx, prog, "C20-R8")


def _update_names(st, tg):
    """names the new value depends on, not counting the old value of the
    same header card (header[k] = header[k] - lo  is  header[k] -= lo)"""
    used = set(names_in(st.value))
    if any(isinstance(x, ast.Subscript) and norm(x) == norm(tg)
           for x in ast.walk(st.value)):
        rest = set()
        for x in ast.walk(st.value):
            if isinstance(x, ast.Name) and not any(
                    isinstance(y, ast.Subscript) and norm(y) == norm(tg) and
                    any(z is x for z in ast.walk(y))
                    for y in ast.walk(st.value)):
                rest.add(x.id)
        used = rest
    return used


def _sliced_by(fnode, e, lo, hi, depth=0):
    if depth > 4:
        return False
    for x in ast.walk(e):
        if isinstance(x, ast.Slice) and x.lower is not None and \
                x.upper is not None and norm(x.lower) == lo and \
                norm(x.upper) == hi:
            return True
        if isinstance(x, ast.Subscript) and \
                not isinstance(x.slice, (ast.Tuple, ast.Slice)):
            # an index tuple assembled from parts
            from ..core import index_alternatives
            al_ = index_alternatives(fnode, x)
            if al_ and all(any(isinstance(el, ast.Slice) and
                               el.lower is not None and el.upper is not None
                               and norm(el.lower) == lo and
                               norm(el.upper) == hi for el in alt)
                           for alt in al_):
                return True
        if isinstance(x, ast.Subscript):
            # a named slice object  rows = slice(lo, hi)
            for el in (x.slice.elts if isinstance(x.slice, ast.Tuple)
                       else [x.slice]):
                if isinstance(el, ast.Name):
                    for d in walk_no_nested(fnode):
                        if isinstance(d, ast.Assign) and \
                                norm(d.targets[0]) == el.id and \
                                norm(d.value).replace(" ", "") == \
                                "slice(%s,%s)" % (lo, hi):
                            return True
    if isinstance(e, ast.Name):
        defs = [s for s in walk_no_nested(fnode) if isinstance(s, ast.Assign)
                and any(norm(t) == e.id for t in s.targets)]
        return bool(defs) and all(_sliced_by(fnode, d.value, lo, hi,
                                             depth + 1) for d in defs)
    return False


def r9_header_model(ctx, prog, fi, rule="C20-R9"):
    """the header returned with band i of n, as expressions in the original
    header: NAXIS2 = hi - lo, CRPIX2 = CRPIX2 - lo, nothing else changed"""
    import sympy as sp
    from .. import headermodel as hm
    ctx.rule(rule, "each band's header maps its pixels to the same sky "
             "positions as the full image: load_image_band, interpreted "
             "over a model header along every path, returns NAXIS2 = "
             "floor(N(i+1)/n) - floor(N i/n), CRPIX2 = CRPIX2 - floor(N i/n) "
             "and leaves every other keyword as it was")
    mod = prog.modules[fi.module]
    i = sp.Symbol("i", integer=True, nonnegative=True)
    n = sp.Symbol("n", integer=True, positive=True)
    keys = ["NAXIS", "NAXIS1", "NAXIS2", "CRPIX1", "CRPIX2", "CRVAL1",
            "CRVAL2", "CDELT1", "CDELT2"]
    h0 = {k: sp.Symbol("h_" + k, real=True) for k in keys}
    h0["NAXIS2"] = sp.Symbol("N", integer=True, positive=True)
    N = h0["NAXIS2"]
    band = fi.params[1]
    try:
        outs = hm.Machine(prog, mod, ("header",), {}).outcomes(
            fi, h0, {band: (i, n)})
    except hm.GiveUp as e:
        raise AnalysisError("%s: header effects of load_image_band: %s" %
                            (rule, e))
    good = [(o, h0, "plain") for o in outs
            if isinstance(o[2], tuple) and len(o[2]) == 2
            and o[2][0] != "raises"]
    # a compressed auxiliary file: the band is cut from the EXPANDED image,
    # so the expected header is expand's header with the same two changes
    if prog.has_func("fits_tools.expand"):
        hc0 = dict(h0)
        fS = sp.Symbol("f", integer=True, positive=True)
        hc0.update({"BN_CFAC": fS,
                    "BN_NPX1": sp.Symbol("npx1", integer=True, positive=True),
                    "BN_NPX2": sp.Symbol("npx2", integer=True, positive=True),
                    "BN_RPX1": sp.Symbol("rpx1", integer=True),
                    "BN_RPX2": sp.Symbol("rpx2", integer=True)})
        try:
            oc = hm.Machine(prog, mod, ("header",), {}).outcomes(
                fi, hc0, {band: (i, n)})
            oe = hm.Machine(prog, mod, ("header",), {}).outcomes(
                prog.func("fits_tools.expand"), hc0)
        except hm.GiveUp as e:
            raise AnalysisError("%s: compressed input: %s" % (rule, e))
        exp_ok = [o for o in oe if not o[0] and not (
            isinstance(o[2], tuple) and o[2] and o[2][0] == "raises")]
        if exp_ok:
            base = exp_ok[0][1]
            good += [(o, base, "compressed") for o in oc
                     if isinstance(o[2], tuple) and len(o[2]) == 2
                     and o[2][0] != "raises"]
    nchk = 0
    seen = set()
    for o, hbase, kind_ in good:
        Nb = hbase["NAXIS2"]
        lo_ = sp.floor(Nb * i / n)
        hi_ = sp.floor(Nb * (i + 1) / n)
        want = {k: hbase.get(k) for k in keys}
        want["NAXIS2"] = hi_ - lo_
        want["CRPIX2"] = hbase["CRPIX2"] - lo_
        he = o[1]
        sig = str(sorted((k, str(v)) for k, v in he.items()))
        if sig in seen:
            continue
        seen.add(sig)
        for k in keys:
            nchk += 1
            v = he.get(k)
            ok = v is not None and v is not hm.OPAQUE and \
                sp.simplify(sp.sympify(v) - want[k]) == 0
            ctx.check(rule, fi, "returned header (%s input): %s = %s" %
                      (kind_, k, v),
                      bool(ok), "band %s of %s of an image with N rows must "
                      "carry %s = %s; found %s: the band's pixels are mapped "
                      "to the wrong sky positions / the wrong shape is "
                      "announced" % (i, n, k, want[k], v), node=fi.node)
    ctx.check(rule, fi, "%d successful path(s) of load_image_band "
              "interpreted (%s)" % (len(good), sorted({g_[2] for g_ in good})),
              {g_[2] for g_ in good} >= {"plain", "compressed"},
              "no successful path", node=fi.node)
    ctx.floor(rule, nchk, 9, "header keywords of the returned band")


def r10_whole_rows(ctx, prog, fi, rule="C20-R10"):
    """each band holds WHOLE rows of the right plane"""
    from ..core import index_alternatives
    ctx.rule(rule, "a band holds whole rows: every section read of "
             "load_image_band takes all columns (0 / none .. NAXIS1 / none), "
             "and an image with NAXIS = k is read with k - 2 leading plane "
             "indices")
    n = 0
    for x in walk_no_nested(fi.node):
        if not (isinstance(x, ast.Subscript) and
                isinstance(x.value, ast.Attribute) and
                x.value.attr in ("section", "data")):
            continue
        alts = index_alternatives(fi.node, x)
        if alts is None:
            continue
        for els in alts:
            if len(els) < 2 or not isinstance(els[-1], ast.Slice):
                continue
            n += 1
            c = els[-1]
            ok = (c.lower is None or norm(c.lower) == "0") and \
                (c.upper is None or norm(c.upper).replace('"', "'") ==
                 "header['NAXIS1']") and c.step is None
            ctx.check(rule, fi, "all columns in " + norm(x, 60), ok,
                      "the column slice %s drops columns: the band is not "
                      "the corresponding rows of the image" %
                      norm(c), node=x)
    ctx.floor(rule, n, 1, "row-block reads")
    # NAXIS dispatch
    nd = 0
    for st in walk_no_nested(fi.node):
        if not (isinstance(st, ast.If) and isinstance(st.test, ast.Compare)
                and len(st.test.ops) == 1 and
                isinstance(st.test.ops[0], ast.Eq) and
                isinstance(st.test.comparators[0], ast.Constant) and
                isinstance(st.test.comparators[0].value, int) and
                "naxis" in norm(st.test.left).lower()):
            continue
        k = st.test.comparators[0].value
        lead = None
        for b in st.body:
            for y in ast.walk(b):
                if isinstance(y, ast.Subscript) and \
                        isinstance(y.value, ast.Attribute) and \
                        y.value.attr == "section" and \
                        isinstance(y.slice, ast.Tuple):
                    lead = len(y.slice.elts) - 2
            if lead is None and isinstance(b, ast.Assign) and \
                    isinstance(b.value, ast.Tuple):
                lead = len(b.value.elts)
        if lead is None:
            continue
        nd += 1
        ctx.check(rule, fi, "NAXIS == %d read with %d leading indices" %
                  (k, lead), lead == k - 2,
                  "an image with %d axes has %d axes in front of (rows, "
                  "columns); the branch uses %d" % (k, k - 2, lead), node=st)
    # (a dispatch written differently -- a table, a computed number of
    # leading axes -- is covered by the plane rule R5 alone)


def r5_planes(ctx, prog, rule="C20-R5"):
    """which plane of a cube is read: FITS axes (NAXIS1..4) = numpy axes
    (x, y, freq, stokes) reversed -> [stokes=0, cube_index, rows, cols]"""
    ctx.rule(rule, "plane addressing: every hdu.section[...] read in the "
             "package selects a 3-d cube plane as [cube_index, rows, cols] "
             "and a 4-d one as [0, cube_index, rows, cols] (numpy axes are "
             "the FITS axes reversed; the leading, degenerate Stokes axis is "
             "taken at 0) -- in load_image_band and in its siblings")
    n = 0
    for q, fi in sorted(prog.functions.items()):
        # local names bound to <hdu>.section
        sect = {s_.targets[0].id for s_ in walk_no_nested(fi.node)
                if isinstance(s_, ast.Assign) and len(s_.targets) == 1 and
                isinstance(s_.targets[0], ast.Name) and
                isinstance(s_.value, ast.Attribute) and
                s_.value.attr == "section"}
        from ..core import index_alternatives
        for x0 in walk_no_nested(fi.node):
            if not (isinstance(x0, ast.Subscript) and (
                        isinstance(x0.value, ast.Attribute) and
                        x0.value.attr == "section" or
                        isinstance(x0.value, ast.Name) and
                        x0.value.id in sect)):
                continue
            alts_ = index_alternatives(fi.node, x0)
            if alts_ is None:
                if isinstance(x0.slice, (ast.Slice, ast.Constant)):
                    continue          # a 1-d read
                raise AnalysisError("%s: index of %s in %s cannot be "
                                    "resolved" % (rule, norm(x0, 60),
                                                  fi.short))
            for els in alts_:
              x = x0
              lead = els[:-2]
              if len(els) <= 2:
                  continue
              n += 1
              if True:
                txt = [norm(e) for e in lead]
                cube = [p_ for p_ in fi.params if "cube" in p_]
                # the enclosing function of a nested worker may own the name
                cname = cube[0] if cube else "cube_index"
                want = [cname] if len(lead) == 1 else ["0", cname] \
                    if len(lead) == 2 else None
                ctx.check(rule, fi, "plane indices %s of %s" %
                          (txt, norm(x, 60)), want is not None and txt == want,
                          "a %d-d image must be read as %s; found %s: the rows of "
                          "a different plane are returned (or an IndexError for "
                          "a degenerate leading axis)" %
                          (len(els), want, txt), node=x)
    ctx.floor(rule, n, 4, "3-d / 4-d section reads in the package")


def r6_bscale(ctx, prog, fi=None, rule="C20-R6"):
    """raw values are scaled exactly once: data *= BSCALE (shared by C20-R6
    and C15-R7: every fits.open of fits_tools)"""
    from .. import callgraph
    from ..core import PKG, as_update
    ctx.rule(rule, "scaled inputs: wherever a file is opened with "
             "do_not_scale_image_data the raw values are multiplied by "
             "header['BSCALE'] exactly once, as a whole array, under "
             "`'BSCALE' in header` -- in the opening function or in every "
             "function that calls it; where astropy scales on read no manual "
             "scaling follows (band / expanded values equal the physical "
             "image)")
    g = callgraph.build(prog)
    n = 0
    for q, f_ in sorted(prog.functions.items()):
        if not f_.module.endswith("fits_tools"):
            continue
        opens = [c for c in walk_no_nested(f_.node) if isinstance(c, ast.Call)
                 and norm(c.func).endswith("fits.open")]
        if not opens:
            continue
        n += 1
        raw = any(any(k.arg == "do_not_scale_image_data" and
                      isinstance(k.value, ast.Constant) and
                      k.value.value is True for k in c.keywords)
                  for c in opens)

        def updates(node):
            out = []
            from ..core import expand_locals
            for st in walk_no_nested(node):
                u = as_update(st)
                if u is not None and "BSCALE" not in u[2] and \
                        isinstance(st, ast.AugAssign):
                    # data *= bscale  with  bscale = header['BSCALE']
                    u = (u[0], u[1], norm(expand_locals(node, st.value)))
                if u is not None and "BSCALE" in u[2]:
                    out.append((st, u))
            return out
        ups = updates(f_.node)
        if not raw:
            # astropy scales on read: no manual scaling may follow
            ctx.check(rule, f_, "astropy scales the data in %s; no manual "
                      "BSCALE" % f_.short, not ups,
                      "the data are scaled by astropy AND by %s" %
                      [norm(s_, 50) for s_, _ in ups], node=f_.node)
            continue
        users = [f_]
        if not ups:
            # the opening function only hands the HDUs on: its callers scale
            users = [prog.functions[c_] for c_ in g.predecessors(q)
                     if c_ in prog.functions] if q in g else []
            if not users:
                users = [f_]
        for u_ in users:
            ups = updates(u_.node)
            ok = len(ups) == 1 and ups[0][1][1] is ast.Mult
            pm = {}
            for x in ast.walk(u_.node):
                for ch in ast.iter_child_nodes(x):
                    pm[ch] = x
            guarded = bool(ups) and isinstance(pm.get(ups[0][0]), ast.If) \
                and "BSCALE" in norm(pm[ups[0][0]].test) and \
                isinstance(pm[ups[0][0]].test, ast.Compare) and \
                isinstance(pm[ups[0][0]].test.ops[0], ast.In)
            ctx.check(rule, u_, "raw values of %s scaled once in %s: %s" %
                      (f_.name, u_.name, [norm(s_, 50) for s_, _ in ups]),
                      ok and guarded,
                      "%s opens the file with do_not_scale_image_data, so "
                      "the values %s works with are raw: they must be "
                      "MULTIPLIED by BSCALE once (found %s)" %
                      (f_.short, u_.short, [norm(s_, 50) for s_, _ in ups]),
                      node=ups[0][0] if ups else u_.node)
            if ups:
                st = ups[0][0]
                tgt = st.target if isinstance(st, ast.AugAssign) \
                    else st.targets[0]
                whole = isinstance(tgt, ast.Name) or (
                    isinstance(tgt, ast.Subscript) and all(
                        (isinstance(e, ast.Slice) and e.lower is None and
                         e.upper is None and e.step is None) or
                        (isinstance(e, ast.Constant) and e.value is Ellipsis)
                        for e in (tgt.slice.elts if isinstance(
                            tgt.slice, ast.Tuple) else [tgt.slice])))
                ctx.check(rule, u_, "the whole array is scaled: " +
                          norm(tgt, 50), whole,
                          "only the part `%s` of the loaded values is "
                          "scaled: the loaded block holds just this band's "
                          "rows (local indices), so for every band but the "
                          "first the slice is empty or misplaced and the "
                          "values stay raw" % norm(tgt, 50), node=st)
    ctx.floor(rule, n, 2, "fits.open sites of fits_tools")


def r7_fresh(ctx, prog, rule="C20-R7"):
    """each call works on objects of its own: nothing on the way is memoised
    (shared by C20-R7 and C15-R8)"""
    from .. import callgraph
    from ..core import PKG, shared_state
    ctx.rule(rule, "no state is shared between calls: load_image_band "
             "adjusts the header it returns IN PLACE, and compress / expand "
             "work on whatever file they are given, so every function of "
             "fits_tools builds fresh objects on every call -- no lru_cache / "
             "cache decorator, no `global`, no module-level or "
             "default-argument container that is stored into")
    n = 0
    for q, fi in sorted(prog.functions.items()):
        if not fi.module.endswith("fits_tools"):
            continue
        n += 1
        st = shared_state(prog, fi)
        ctx.check(rule, fi, "%s builds fresh objects" % fi.short, not st,
                  "%s keeps state between calls (%s): what was computed for "
                  "one file (a header already shrunk to a band, a pixel grid "
                  "of another image's size) is handed out again for the "
                  "next" % (fi.short, "; ".join(d for _, d in st[:3])),
                  node=st[0][0] if st else fi.node)
    ctx.floor(rule, n, 4, "functions of fits_tools")
