"""
Shared structural model of AegeanTools.regions.Region used by C08, C09, C12:
which expressions denote the level dictionary / a level set / the cache, which
statements mutate them, and a linear-form evaluator for pixel arithmetic.
"""
from __future__ import annotations

import ast

from .absint import AV, INT, TOP, container
from .core import AnalysisError, norm, walk_no_nested
from .lib import Lib

REGION = "AegeanTools.regions.Region"
SET_MUTATORS = {"add", "update", "difference_update", "intersection_update",
                "symmetric_difference_update", "discard", "remove", "clear",
                "pop"}
PIXSET = AV(num="obj", cls="pixset", elem=INT)
PIXDICT = AV(num="obj", cls="pixeldict", elem=PIXSET)


class RegionLib(Lib):
    """Contracts: Region.pixeldict : level -> set(int), Region.maxdepth : int,
    Region.demoted : set(int); Region.add_pixels(pix : iterable of int)."""

    def class_attr(self, it, cq, attr):
        if cq == REGION:
            if attr == "pixeldict":
                return PIXDICT
            if attr == "maxdepth":
                return INT
            if attr == "demoted":
                return PIXSET
        return None

    def param_default(self, it, fi, name, default):
        if fi.qualname == REGION + ".add_pixels" and name == "pix":
            return container(INT, cls="contract:pix")
        if name == "other" and fi.cls == "Region":
            return AV(num="obj", cls=REGION)
        if name in ("depth", "maxdepth", "d"):
            return INT
        return super().param_default(it, fi, name, default)

    def subscript(self, it, n, base, ivs, env):
        if base.cls == "pixeldict":
            return PIXSET
        return super().subscript(it, n, base, ivs, env)

    def call(self, it, n, dotted, recv, args, kwargs, env):
        if dotted and dotted.startswith("pixset."):
            m = dotted.split(".", 1)[1]
            if m == "copy":
                return PIXSET
        if dotted == REGION + ".get_demoted":
            return PIXSET
        if dotted in ("_pickle.load", "pickle.load"):
            return AV(num="obj", cls=REGION)
        return super().call(it, n, dotted, recv, args, kwargs, env)


def region_methods(prog):
    ci = prog.klass("regions.Region")
    if not ci.methods:
        raise AnalysisError("class Region has no methods")
    return ci


class _Aliases(dict):
    """name -> object for aliases of the level dictionary; .levels maps a
    name bound ONCE to <obj>.pixeldict[<level>] (an alias of one level set)
    to (object, level expression)"""
    levels: dict


def pixeldict_aliases(fnode):
    """local names bound to self.pixeldict / other.pixeldict, and (in
    .levels) to a single level set of one of them"""
    al = _Aliases()
    al.levels = {}
    for n in walk_no_nested(fnode):
        if isinstance(n, ast.Assign) and len(n.targets) == 1 and \
                isinstance(n.targets[0], ast.Name) and \
                isinstance(n.value, ast.Attribute) and \
                n.value.attr == "pixeldict" and \
                isinstance(n.value.value, ast.Name):
            al[n.targets[0].id] = n.value.value.id
    # level-set aliases: bound once, and the slot itself is never re-bound
    # in this function (so the name keeps denoting the stored set)
    binds = {}
    for n in walk_no_nested(fnode):
        if isinstance(n, ast.Assign):
            for t in n.targets:
                if isinstance(t, ast.Name):
                    binds.setdefault(t.id, []).append(n)
        elif isinstance(n, (ast.For, ast.AugAssign)):
            t = n.target
            for x in ast.walk(t):
                if isinstance(x, ast.Name):
                    binds.setdefault(x.id, []).append(n)
    slot_rebound = any(
        isinstance(n, ast.Assign) and any(
            isinstance(t, ast.Subscript) and _is_dict(t.value, al)
            for t in n.targets) for n in walk_no_nested(fnode))
    if not slot_rebound:
        for name, bs in binds.items():
            if len(bs) == 1 and isinstance(bs[0], ast.Assign) and \
                    isinstance(bs[0].value, ast.Subscript) and \
                    _is_dict(bs[0].value.value, al):
                b = bs[0].value.value
                obj = b.value.id if isinstance(b, ast.Attribute) \
                    else al[b.id]
                al.levels[name] = (obj, bs[0].value.slice)
    # level = <dict>.setdefault(depth, set()): the stored level set as well
    for name, bs in binds.items():
        if len(bs) == 1 and isinstance(bs[0], ast.Assign) and \
                isinstance(bs[0].value, ast.Call) and \
                isinstance(bs[0].value.func, ast.Attribute) and \
                bs[0].value.func.attr == "setdefault" and \
                bs[0].value.args and \
                _is_dict(bs[0].value.func.value, al):
            b = bs[0].value.func.value
            obj = b.value.id if isinstance(b, ast.Attribute) else al[b.id]
            al.levels[name] = (obj, bs[0].value.args[0])
    return al


def _is_dict(b, al):
    return (isinstance(b, ast.Attribute) and b.attr == "pixeldict" and
            isinstance(b.value, ast.Name)) or (
        isinstance(b, ast.Name) and b.id in al)


def levelset_owner(expr, aliases):
    """If expr denotes <obj>.pixeldict[<level>] (possibly through a local
    alias of the dictionary, or of that one level set) return
    (obj_name, level_expr) else None."""
    if isinstance(expr, ast.Name):
        return getattr(aliases, "levels", {}).get(expr.id)
    if isinstance(expr, ast.Call) and isinstance(expr.func, ast.Attribute) \
            and expr.func.attr == "setdefault" and expr.args:
        # <dict>.setdefault(level, set()) IS the stored level set
        d = expr.func.value
        if isinstance(d, ast.Attribute) and d.attr == "pixeldict" and \
                isinstance(d.value, ast.Name):
            return d.value.id, expr.args[0]
        if isinstance(d, ast.Name) and d.id in aliases:
            return aliases[d.id], expr.args[0]
        return None
    if not isinstance(expr, ast.Subscript):
        return None
    b = expr.value
    if isinstance(b, ast.Attribute) and b.attr == "pixeldict" and \
            isinstance(b.value, ast.Name):
        return b.value.id, expr.slice
    if isinstance(b, ast.Name) and b.id in aliases:
        return aliases[b.id], expr.slice
    return None


def direct_mutations(fnode):
    """statements in fnode that mutate a level set / the level dict of
    `self`: [(stmt_or_call_node, description)]"""
    al = pixeldict_aliases(fnode)
    out = []
    for n in walk_no_nested(fnode):
        if isinstance(n, ast.Call) and isinstance(n.func, ast.Attribute) and \
                n.func.attr in SET_MUTATORS:
            o = levelset_owner(n.func.value, al)
            if o and o[0] == "self":
                out.append((n, "%s on self level set [%s]" %
                            (n.func.attr, norm(o[1]))))
        elif isinstance(n, (ast.Assign, ast.AugAssign)):
            tgts = n.targets if isinstance(n, ast.Assign) else [n.target]
            for t in tgts:
                o = levelset_owner(t, al)
                if o and o[0] == "self":
                    out.append((n, "assignment to self level set [%s]" %
                                norm(o[1])))
                if isinstance(t, ast.Attribute) and t.attr == "pixeldict" \
                        and isinstance(t.value, ast.Name) and \
                        t.value.id == "self":
                    out.append((n, "re-binding self.pixeldict"))
    return out


def self_calls(fnode):
    """[(call node, method name)] for self.<m>(...) calls"""
    out = []
    for n in walk_no_nested(fnode):
        if isinstance(n, ast.Call) and isinstance(n.func, ast.Attribute) and \
                isinstance(n.func.value, ast.Name) and \
                n.func.value.id == "self":
            out.append((n, n.func.attr))
    return out


def is_cache_reset(stmt):
    """self.demoted = set()  (or = set([]) / {} style empties)"""
    if not isinstance(stmt, ast.Assign):
        return False
    for t in stmt.targets:
        if isinstance(t, ast.Attribute) and t.attr == "demoted" and \
                isinstance(t.value, ast.Name) and t.value.id == "self":
            v = stmt.value
            if isinstance(v, ast.Call) and isinstance(v.func, ast.Name) and \
                    v.func.id in ("set", "frozenset") and \
                    (not v.args or (isinstance(v.args[0], (ast.List,
                                                           ast.Tuple)) and
                                    not v.args[0].elts)):
                return True
    return False


def assigns_cache(stmt):
    if not isinstance(stmt, ast.Assign):
        return False
    return any(isinstance(t, ast.Attribute) and t.attr == "demoted" and
               isinstance(t.value, ast.Name) and t.value.id == "self"
               for t in stmt.targets)


def linear(expr, sym, env=None, depth=0):
    """expr as a*sym + b over the integers (exact ops only: + - * << and
    integer constants).  Returns (a, b, exact) or None; `//`, `/`, `>>` on the
    symbol are reported as ('floordiv'|'truediv'|'rshift', k)."""
    env = env or {}
    if depth > 12:
        return None
    if isinstance(expr, ast.Constant) and isinstance(expr.value, int) and \
            not isinstance(expr.value, bool):
        return (0, expr.value)
    if isinstance(expr, ast.Name):
        if expr.id == sym:
            return (1, 0)
        if expr.id in env:
            return linear(env[expr.id], sym, env, depth + 1)
        return None
    if isinstance(expr, ast.Call) and isinstance(expr.func, ast.Name) and \
            expr.func.id == "int" and len(expr.args) == 1:
        return linear(expr.args[0], sym, env, depth + 1)
    if isinstance(expr, ast.UnaryOp) and isinstance(expr.op, ast.USub):
        v = linear(expr.operand, sym, env, depth + 1)
        return (-v[0], -v[1]) if v else None
    if isinstance(expr, ast.BinOp):
        l = linear(expr.left, sym, env, depth + 1)
        r = linear(expr.right, sym, env, depth + 1)
        if l is None or r is None:
            return None
        if isinstance(expr.op, ast.Add):
            return (l[0] + r[0], l[1] + r[1])
        if isinstance(expr.op, ast.Sub):
            return (l[0] - r[0], l[1] - r[1])
        if isinstance(expr.op, ast.Mult):
            if l[0] == 0:
                return (l[1] * r[0], l[1] * r[1])
            if r[0] == 0:
                return (l[0] * r[1], l[1] * r[1])
            return None
        if isinstance(expr.op, ast.LShift) and r[0] == 0 and r[1] >= 0:
            return (l[0] << r[1], l[1] << r[1])
        if isinstance(expr.op, ast.Pow) and l[0] == 0 and r[0] == 0 and \
                r[1] >= 0:
            return (0, l[1] ** r[1])
    return None
