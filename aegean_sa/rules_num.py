"""D-num rules shared by several properties."""
from __future__ import annotations

from .absint import Observer, World
from .core import norm
from .lib import Lib

INT_ONLY = {"range": "range()", "index": "an array index",
            "slice": "a slice bound", "bitop": "a bitwise operator",
            "format_d": "a ':d' format"}


class LmfitIntUse(Observer):
    """lmfit Parameter.value (a float after copy/fit) used where Python
    demands an int."""

    def __init__(self, ctx, rule, scope):
        self.ctx, self.rule, self.scope = ctx, rule, scope
        self.sites = 0
        self.seen = set()

    def on_use(self, it, node, what, val):
        if it.fi.qualname not in self.scope or it.depth:
            return
        if "lmfit.value.coerced" not in val.src:
            return
        key = (it.fi.qualname, node.lineno, node.col_offset, what)
        if key in self.seen:
            return
        self.seen.add(key)
        self.sites += 1
        why = sorted(x for x in val.src if x.startswith("coerced"))
        self.ctx.check(
            self.rule, it.fi, "%s used as %s" % (norm(node, 70),
                                                 INT_ONLY[what]),
            val.num in ("int", "bool"),
            "lmfit Parameter.value is a float once the Parameters object "
            "has been copied or fitted (%s); used as %s it raises TypeError "
            "on every execution -- wrap it in int()" %
            (", ".join(why), INT_ONLY[what]),
            {"value": val.short(), "context": what}, node)


def lmfit_int_uses(ctx, rule, scope_qualnames, lib=None, modules=None):
    ctx.rule(rule, "every lmfit Parameter.value that reaches an int-only "
             "context (range, index, slice bound, bit operator, ':d' format) "
             "is converted with int() when the Parameters object may have "
             "been deep-copied, returned by minimize or handed to a "
             "minimize callback (interprocedural provenance)")
    lib = lib or Lib()
    w = World(ctx.prog, lib, modules=modules)
    obs = LmfitIntUse(ctx, rule, set(scope_qualnames))
    w.run(observers=[obs])
    ctx.trust(*Lib.trusted)
    return obs.sites
