"""
Thorough tier: both-ways test of a property's checker on scratch copies of the
repository source (made under $TMPDIR, outside /repo and /verif, removed
afterwards).

  MUTANTS -- (name, file, old, new, expected_rule): a one-instance breakage
             that still parses; the check must exit 1 and report
             expected_rule.
  TWINS   -- (name, file, old, new): a behaviour-preserving rewrite; the
             check must stay silent (exit 0).

A self-test failure is an ANALYSIS-ERROR (the checker is not trustworthy); it
is never turned into a verdict about /repo.
"""
from __future__ import annotations

import ast
import os
import shutil
import subprocess
import sys
import tempfile
from concurrent.futures import ThreadPoolExecutor

from .core import REPO, VERIF, AnalysisError


def _copy_repo(dst):
    for sub in ("AegeanTools", "scripts"):
        s = os.path.join(REPO, sub)
        if os.path.isdir(s):
            shutil.copytree(s, os.path.join(dst, sub),
                            ignore=shutil.ignore_patterns(
                                "__pycache__", "*.pyc", "*.fits", "*.mim"))


def _run_variant(prop, kind, spec):
    name, rel, old, new = spec[:4]
    tmp = tempfile.mkdtemp(prefix="aegean_sa_%s_" % prop)
    try:
        _copy_repo(tmp)
        p = os.path.join(tmp, rel)
        if not os.path.exists(p):
            return dict(name=name, kind=kind, status="skipped",
                        why="file %s missing" % rel)
        src = open(p).read()
        if src.count(old) < 1:
            return dict(name=name, kind=kind, status="skipped",
                        why="anchor text not found in %s" % rel)
        src2 = src.replace(old, new, 1)
        try:
            ast.parse(src2)
        except SyntaxError as e:
            return dict(name=name, kind=kind, status="broken",
                        why="variant does not parse: %s" % e)
        open(p, "w").write(src2)
        env = dict(os.environ)
        env["AEGEAN_REPO"] = tmp
        env["AEGEAN_EVIDENCE_DIR"] = os.path.join(tmp, "_evidence")
        env["VERIF_TIER"] = "quick"
        r = subprocess.run([sys.executable, "-B", "-m", "aegean_sa.cli", prop,
                            "--tier", "quick"], cwd=VERIF, env=env,
                           capture_output=True, text=True, timeout=600)
        rules = sorted({ln.split("[", 1)[1].split("]", 1)[0]
                        for ln in r.stdout.splitlines()
                        if ": [" in ln and "]" in ln})
        res = dict(name=name, kind=kind, exit=r.returncode, rules=rules)
        if kind == "mutant":
            want = spec[4]
            ok = r.returncode == 1 and (want is None or any(
                x == want or x.startswith(want) for x in rules))
            res["expected_rule"] = want
            res["status"] = "caught" if ok else "MISSED"
            if not ok:
                res["output"] = r.stdout[-600:]
        else:
            ok = r.returncode == 0
            res["status"] = "silent" if ok else "FALSE-ALARM"
            if not ok:
                res["output"] = r.stdout[-600:]
        return res
    finally:
        shutil.rmtree(tmp, ignore_errors=True)


def run(ctx, mod):
    prop = ctx.prop
    mutants = list(getattr(mod, "MUTANTS", []))
    twins = list(getattr(mod, "TWINS", []))
    if not mutants and not twins:
        ctx.selftest = {"mutants": 0, "twins": 0,
                        "note": "no variants defined for this property"}
        return
    jobs = [("mutant", m) for m in mutants] + [("twin", t) for t in twins]
    with ThreadPoolExecutor(max_workers=min(16, len(jobs))) as ex:
        results = list(ex.map(lambda j: _run_variant(prop, j[0], j[1]), jobs))
    bad = [r for r in results if r["status"] in ("MISSED", "FALSE-ALARM",
                                                 "broken")]
    skipped = [r for r in results if r["status"] == "skipped"]
    ctx.selftest = {
        "mutants": len(mutants), "twins": len(twins),
        "caught": sum(1 for r in results if r["status"] == "caught"),
        "silent": sum(1 for r in results if r["status"] == "silent"),
        "skipped": [r["name"] + ": " + r["why"] for r in skipped],
        "results": results,
    }
    for r in results:
        ctx.ob("selftest", "selftest", "%s %s" % (r["kind"], r["name"]),
               r["status"] in ("caught", "silent", "skipped"),
               {k: v for k, v in r.items() if k not in ("name", "kind")})
    print("%s selftest: %d/%d mutants caught, %d/%d twins silent, "
          "%d skipped" % (prop, ctx.selftest["caught"], len(mutants),
                          ctx.selftest["silent"], len(twins), len(skipped)))
    if bad:
        raise AnalysisError(
            "self-test of the %s checker failed: %s" %
            (prop, "; ".join("%s %s -> %s" % (r["kind"], r["name"],
                                               r["status"]) for r in bad)))
    if len(skipped) > (len(jobs) // 2):
        raise AnalysisError(
            "self-test of the %s checker: %d of %d variants no longer apply "
            "to the source (anchors moved)" % (prop, len(skipped), len(jobs)))
