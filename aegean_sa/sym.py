"""
E5 -- value numbering of loop-free numeric kernels into sympy expressions and
identity checking by canonical form (no search, no solver): trig functions of
linear angle combinations are expanded, the difference is brought to a
rational function and its numerator reduced modulo s^2 + c^2 - 1.
Decides identity over the reals; floating-point conditioning is not decided.
"""
from __future__ import annotations

import ast

import sympy as sp

from .core import AnalysisError, Program, norm

PI = sp.pi


class Untranslatable(Exception):
    pass


FUNCS = {
    "numpy.sin": sp.sin, "math.sin": sp.sin,
    "numpy.cos": sp.cos, "math.cos": sp.cos,
    "numpy.tan": sp.tan, "math.tan": sp.tan,
    "numpy.arcsin": sp.asin, "math.asin": sp.asin,
    "numpy.arccos": sp.acos, "math.acos": sp.acos,
    "numpy.arctan": sp.atan, "math.atan": sp.atan,
    "numpy.sqrt": sp.sqrt, "math.sqrt": sp.sqrt,
    "numpy.exp": sp.exp, "math.exp": sp.exp,
    "numpy.log": sp.log, "math.log": sp.log,
    "numpy.abs": sp.Abs, "numpy.fabs": sp.Abs, "math.fabs": sp.Abs,
    "numpy.sign": sp.sign,
    "numpy.radians": lambda x: x * PI / 180,
    "math.radians": lambda x: x * PI / 180,
    "numpy.deg2rad": lambda x: x * PI / 180,
    "numpy.degrees": lambda x: x * 180 / PI,
    "math.degrees": lambda x: x * 180 / PI,
    "numpy.rad2deg": lambda x: x * 180 / PI,
    "numpy.hypot": lambda a, b: sp.sqrt(a ** 2 + b ** 2),
    "math.hypot": lambda a, b: sp.sqrt(a ** 2 + b ** 2),
    "numpy.arctan2": lambda y, x: sp.Function("atan2")(y, x),
    "math.atan2": lambda y, x: sp.Function("atan2")(y, x),
    "numpy.minimum": lambda a, b: sp.Function("minimum")(a, b),
    "numpy.maximum": lambda a, b: sp.Function("maximum")(a, b),
    "numpy.clip": lambda a, lo, hi: sp.Function("clip")(a, lo, hi),
    "numpy.square": lambda a: a ** 2,
    "numpy.nan_to_num": lambda a: a,
    "numpy.array": lambda a: a,
    "numpy.asarray": lambda a: a,
}
def _fold(name):
    def f(a, b, *more):
        r = sp.Function(name)(a, b)
        for m in more:
            r = sp.Function(name)(r, m)
        return r
    return f


BUILTINS = {"abs": sp.Abs, "float": lambda a: a, "int": lambda a: a,
            "min": _fold("minimum"), "max": _fold("maximum")}


class Translator:
    # branch selection for 3-argument np.where(cond, a, b): the k-th where()
    # met during a translation takes branch CHOICES[k] (True -> a); callers
    # that want all cases enumerate the combinations (see inline_cases)
    CHOICES: list = []
    WHERE_COUNT = 0

    def __init__(self, prog: Program, mod, env=None, inline_depth=3,
                 attr_symbols=True, free_symbols=False):
        self.prog = prog
        self.mod = mod
        self.env = dict(env or {})
        self.inline_depth = inline_depth
        self.attr_symbols = attr_symbols
        self.free_symbols = free_symbols

    def sym(self, name):
        return sp.Symbol(name, real=True)

    # ---- expressions ----------------------------------------------------
    def expr(self, n):
        if isinstance(n, ast.Constant):
            if isinstance(n.value, bool) or not isinstance(n.value,
                                                           (int, float)):
                raise Untranslatable(norm(n))
            return sp.nsimplify(n.value, rational=True) \
                if isinstance(n.value, float) else sp.Integer(n.value)
        if isinstance(n, ast.Name):
            if n.id in self.env:
                return self.env[n.id]
            cv = self.prog.const_value(self.mod, n)
            if isinstance(cv, (int, float)):
                tgt = self.mod.consts.get(n.id)
                if tgt is not None:
                    return Translator(self.prog, self.mod).expr(tgt)
                imp = self.mod.imports.get(n.id, "")
                m, _, nm = imp.rpartition(".")
                if m in self.prog.modules and \
                        nm in self.prog.modules[m].consts:
                    return Translator(self.prog, self.prog.modules[m]).expr(
                        self.prog.modules[m].consts[nm])
            if self.free_symbols:
                return self.sym(n.id)
            raise Untranslatable("free name " + n.id)
        if isinstance(n, ast.Attribute):
            d = self.prog.dotted(self.mod, n)
            if d in ("numpy.pi", "math.pi"):
                return PI
            k = norm(n)
            if k in self.env:
                return self.env[k]
            if self.attr_symbols:
                return self.sym(k.replace(".", "_"))
            raise Untranslatable(k)
        if isinstance(n, ast.UnaryOp):
            v = self.expr(n.operand)
            if isinstance(n.op, ast.USub):
                return -v
            if isinstance(n.op, ast.UAdd):
                return v
            raise Untranslatable(norm(n))
        if isinstance(n, ast.BinOp):
            l, r = self.expr(n.left), self.expr(n.right)
            if isinstance(n.op, ast.Add):
                return l + r
            if isinstance(n.op, ast.Sub):
                return l - r
            if isinstance(n.op, ast.Mult):
                return l * r
            if isinstance(n.op, ast.Div):
                return l / r
            if isinstance(n.op, ast.Pow):
                return l ** r
            if isinstance(n.op, ast.FloorDiv):
                return sp.floor(l / r)
            if isinstance(n.op, ast.Mod):
                return sp.Mod(l, r)
            if isinstance(n.op, ast.LShift):
                return l * 2 ** r
            raise Untranslatable(norm(n))
        if isinstance(n, ast.Call):
            return self.call(n)
        if isinstance(n, ast.Subscript):
            k = norm(n)
            if k in self.env:
                return self.env[k]
            if isinstance(n.value, ast.Name) and isinstance(
                    self.env.get(n.value.id), tuple) and \
                    isinstance(n.slice, ast.Constant) and \
                    isinstance(n.slice.value, int) and \
                    -len(self.env[n.value.id]) <= n.slice.value < \
                    len(self.env[n.value.id]):
                return self.env[n.value.id][n.slice.value]
            if self.attr_symbols:
                return self.sym("v_" + "".join(
                    c if c.isalnum() else "_" for c in k))
            raise Untranslatable(k)
        if isinstance(n, ast.IfExp):
            if getattr(self, "ifexp_guards", False):
                # a value defined piecewise under a guard the translator
                # does not interpret: equal to a reference only if BOTH
                # branches are
                g = sp.Symbol("guard_" + "".join(
                    c if c.isalnum() else "_" for c in norm(n.test, 60)))
                return sp.Piecewise((self.expr(n.body), sp.Eq(g, 1)),
                                    (self.expr(n.orelse), True))
            raise Untranslatable("conditional expression " + norm(n))
        if isinstance(n, (ast.Tuple, ast.List)):
            return tuple(self.expr(e) for e in n.elts)
        raise Untranslatable(type(n).__name__ + " " + norm(n))

    def call(self, n):
        f = n.func
        if n.keywords and not (len(n.keywords) == 1 and
                               n.keywords[0].arg in ("dtype",)):
            pass
        d = None
        if isinstance(f, ast.Name):
            if f.id in BUILTINS and f.id not in self.env:
                args = [self.expr(a) for a in n.args]
                try:
                    return BUILTINS[f.id](*args)
                except TypeError:
                    raise Untranslatable(norm(n))
            d = self.prog.resolve_name(self.mod, f.id)
        elif isinstance(f, ast.Attribute):
            d = self.prog.dotted(self.mod, f)
        if d == "numpy.where" and len(n.args) == 3:
            k = Translator.WHERE_COUNT
            Translator.WHERE_COUNT += 1
            take_a = Translator.CHOICES[k] if k < len(Translator.CHOICES) \
                else True
            return self.expr(n.args[1] if take_a else n.args[2])
        if d in FUNCS:
            args = [self.expr(a) for a in n.args]
            try:
                return FUNCS[d](*args)
            except TypeError:
                raise Untranslatable(norm(n))
        if d in self.prog.functions and self.inline_depth > 0:
            fi = self.prog.functions[d]
            args = [self.expr(a) for a in n.args]
            kw = {k.arg: self.expr(k.value) for k in n.keywords}
            return inline(self.prog, fi, args, kw, self.inline_depth - 1)
        raise Untranslatable("call " + norm(n.func))

    # ---- statements (straight-line value numbering) -----------------------
    def exec(self, stmts):
        """returns the returned expression if a Return is reached"""
        for s in stmts:
            if isinstance(s, ast.Expr):
                continue            # docstrings, logging
            if isinstance(s, ast.Assign):
                v = self.expr(s.value)
                for t in s.targets:
                    self.store(t, v)
            elif isinstance(s, ast.AugAssign):
                cur = self.expr(s.target)
                v = self.expr(ast.BinOp(ast.Name("__cur", ast.Load()), s.op,
                                        s.value)) \
                    if False else None
                rhs = self.expr(s.value)
                op = s.op
                if isinstance(op, ast.Add):
                    v = cur + rhs
                elif isinstance(op, ast.Sub):
                    v = cur - rhs
                elif isinstance(op, ast.Mult):
                    v = cur * rhs
                elif isinstance(op, ast.Div):
                    v = cur / rhs
                elif isinstance(op, ast.Pow):
                    v = cur ** rhs
                else:
                    raise Untranslatable(norm(s))
                self.store(s.target, v)
            elif isinstance(s, ast.Return):
                return self.expr(s.value)
            elif isinstance(s, ast.Try):
                r = self.exec(s.body)
                if r is not None:
                    return r
            elif isinstance(s, (ast.Import, ast.ImportFrom, ast.Pass)):
                continue
            else:
                raise Untranslatable("statement " + norm(s))
        return None

    def store(self, t, v):
        if isinstance(t, (ast.Tuple, ast.List)):
            if not isinstance(v, tuple) or len(v) != len(t.elts):
                raise Untranslatable("tuple assignment " + norm(t))
            for a, b in zip(t.elts, v):
                self.store(a, b)
            return
        self.env[norm(t)] = v


def number_locals(tr, fnode, before_line, skip=()):
    """value-number the simple local assignments of fnode that precede
    `before_line` into the translator's environment (untranslatable ones are
    skipped); names in `skip` keep their preset meaning"""
    from .core import walk_no_nested
    preset = {k: tr.env[k] for k in skip if k in tr.env}
    for st in sorted((x for x in walk_no_nested(fnode)
                      if isinstance(x, (ast.Assign, ast.AugAssign)) and
                      x.lineno < before_line), key=lambda x: x.lineno):
        try:
            tr.exec([st])
        except Untranslatable:
            pass
        tr.env.update(preset)
    return tr


def inline(prog, fi, args, kwargs=None, depth=2):
    params = fi.params
    if fi.cls and params and params[0] in ("self", "cls"):
        params = params[1:]
    env = dict(zip(params, args))
    env.update(kwargs or {})
    tr = Translator(prog, prog.modules[fi.module], env, inline_depth=depth)
    r = tr.exec(fi.node.body)
    if r is None:
        raise Untranslatable("no return value in " + fi.short)
    return r


def inline_cases(prog, fi, args, kwargs=None, depth=2, cap=4):
    """all branch combinations of the np.where(cond, a, b) selections met
    while translating fi: [(choices, expr)]"""
    import itertools
    Translator.CHOICES, Translator.WHERE_COUNT = [], 0
    first = inline(prog, fi, args, kwargs, depth)
    k = Translator.WHERE_COUNT
    out = [((True,) * k, first)]
    if k > cap:
        raise Untranslatable("%d data-dependent selections in %s" %
                             (k, fi.short))
    for combo in itertools.product([True, False], repeat=k):
        if all(combo):
            continue
        Translator.CHOICES, Translator.WHERE_COUNT = list(combo), 0
        out.append((combo, inline(prog, fi, args, kwargs, depth)))
    Translator.CHOICES, Translator.WHERE_COUNT = [], 0
    return out


# --------------------------------------------------------------------------
# identity by canonical form
# --------------------------------------------------------------------------
def is_zero(e) -> bool:
    """Decide e == 0 as an identity over the reals (rational functions of
    symbols, sqrt, exp, and sin/cos of linear combinations)."""
    e = sp.sympify(e)
    if e == 0:
        return True
    e = sp.expand_trig(sp.expand(e))
    e = sp.together(e)
    num, den = sp.fraction(e)
    num = sp.expand(sp.expand_trig(num))
    if num == 0:
        return True
    # replace sin(a), cos(a) of atomic arguments by polynomial symbols and
    # reduce modulo s^2 + c^2 - 1
    atoms = sorted({a.args[0] for a in num.atoms(sp.sin, sp.cos)},
                   key=sp.default_sort_key)
    rel = []
    subs = {}
    gens = []
    for i, a in enumerate(atoms):
        s, c = sp.Symbol("s_%d" % i), sp.Symbol("c_%d" % i)
        subs[sp.sin(a)] = s
        subs[sp.cos(a)] = c
        rel.append(s ** 2 + c ** 2 - 1)
        gens += [s, c]
    p = num.subs(subs)
    p = sp.expand(p)
    if rel:
        try:
            _, r = sp.reduced(p, rel, *gens)
            p = sp.expand(r)
        except Exception:
            p = sp.simplify(p)
    if p == 0:
        return True
    p2 = sp.simplify(p)
    return p2 == 0


def equal(a, b) -> bool:
    return is_zero(a - b)


def ratio_const(a, b):
    """if a == k*b identically for a constant k return k else None"""
    try:
        q = sp.simplify(a / b)
    except Exception:
        return None
    if q.free_symbols:
        return None
    return q
