"""Runs the unit / kind / index abstract interpretation once per process and
lets each property pick the findings inside its own scope."""
from __future__ import annotations

from .absint import World
from .core import PKG
from .units import ContractObs, UnitLib

_cache = {}


def analyse(prog):
    if id(prog) in _cache:
        return _cache[id(prog)]
    lib = UnitLib()
    w = World(prog, lib)
    obs = ContractObs(lib)
    w.run(observers=[obs])
    # de-duplicate reports made while folding expressions
    seen, reports = set(), []
    for fi, node, rule, msg, facts in lib.reports:
        k = (fi.qualname, getattr(node, "lineno", 0),
             getattr(node, "col_offset", 0), rule, msg)
        if k not in seen:
            seen.add(k)
            reports.append((fi, node, rule, msg, facts))
    res = dict(obs=obs, reports=reports, world=w, lib=lib)
    _cache[id(prog)] = res
    return res


def apply(ctx, rule, scope, kinds=None, report_rules=None, what="",
          floor=None):
    """Record, under `rule`, every examined contract site and every definite
    contradiction inside the functions of `scope` (set of short names or a
    predicate on short names)."""
    from .core import norm
    prog = ctx.prog
    res = analyse(prog)
    obs = res["obs"]
    ctx.trust(*UnitLib.trusted)

    def inscope(fi):
        s = fi.short
        return scope(s) if callable(scope) else s in scope
    bad = {}
    for fi, node, kind, msg, facts in obs.found:
        if inscope(fi) and (kinds is None or kind in kinds):
            bad.setdefault((fi.qualname, getattr(node, "lineno", 0),
                            getattr(node, "col_offset", 0)), []).append(
                (fi, node, kind, msg, facts))
    n = 0
    for (q, line, col, kind), text in sorted(obs.examined.items()):
        fi = prog.functions[q]
        if not inscope(fi) or (kinds is not None and kind not in kinds and
                               not (kind == "call" and "return" in kinds)):
            continue
        n += 1
        if (q, line, col) not in bad:
            ctx.ob(rule, fi, "%s site: %s" % (kind, text), True,
                   {"kind": kind}, _Pos(line))
    for key, items in bad.items():
        for fi, node, kind, msg, facts in items:
            ctx.check(rule, fi, "%s: %s" % (kind, norm(node, 90)), False,
                      msg, facts, node)
    for fi, node, r, msg, facts in res["reports"]:
        if inscope(fi) and r != "idx-taint" and \
                (report_rules is None or r in report_rules):
            n += 1
            ctx.check(rule, fi, "%s: %s" % (r, norm(node, 90)), False, msg,
                      facts, node)
    if floor is not None:
        ctx.floor(rule, n, floor, what or "contract sites in scope")
    return n


class _Pos:
    def __init__(self, line):
        self.lineno = line
