"""
D-unit / D-kind / D-idx facets, column arrays and the repository's contracts
table for the abstract interpreter (UnitLib), plus the observer that checks
call sites, contracted attribute stores and returns against the contracts.

Only *definite* contradictions are reported: two known, different facts.
"""
from __future__ import annotations

import ast
import math
from dataclasses import dataclass

from .absint import (AV, BOOL, FLOAT, INT, NONE, TOP, Observer, container,
                     join)
from .core import PKG, norm
from .lib import Lib

# --------------------------------------------------------------------------
# conversions recognised by value
# --------------------------------------------------------------------------
CC2FWHM = 2 * math.sqrt(2 * math.log(2))
UNIT_CONV = [                 # (factor, from, to)
    (math.pi / 180, "deg", "rad"), (180 / math.pi, "rad", "deg"),
    (3600.0, "deg", "arcsec"), (1 / 3600.0, "arcsec", "deg"),
    (60.0, "deg", "arcmin"), (1 / 60.0, "arcmin", "deg"),
    (60.0, "arcmin", "arcsec"), (1 / 60.0, "arcsec", "arcmin"),
    (15.0, "hour", "deg"), (1 / 15.0, "deg", "hour"),
]
KIND_CONV = [(CC2FWHM, "sigma", "fwhm"), (1 / CC2FWHM, "fwhm", "sigma")]
WIDTH_KINDS = {"sigma", "fwhm"}
POS_KINDS = {"lon", "lat", "colat"}
# which of the two axes of an ellipse a width describes: the first (a / sx /
# major) or the second (b / sy / minor)
AXIS_KINDS = {"ax1", "ax2", "axmixed"}
# sexagesimal strings: hours:min:sec (right ascension) or deg:min:sec
SEXA_KINDS = {"hms", "dms"}


def close(a, b):
    return abs(a - b) <= 1e-9 * max(abs(a), abs(b), 1e-300)


def fs(*x):
    return frozenset(x)


@dataclass(frozen=True)
class Idx:
    axis: str | None = None        # 'row' | 'col'
    origin: int | None = None      # 0 | 1
    frame: object = None           # 'image' | ('rel', symbol) | None
    crossed: str = ""              # non-empty: axis/offset mix-up description

    def __str__(self):
        fr = self.frame if isinstance(self.frame, str) or self.frame is None \
            else "rel(%s)" % self.frame[1]
        return "idx(%s,o%s,%s%s)" % (self.axis, self.origin, fr,
                                     ",CROSSED:" + self.crossed
                                     if self.crossed else "")


@dataclass(frozen=True)
class Cut:
    """an array that is a cut-out arr[r0:r1, c0:c1] of an image"""
    row0: str | None
    col0: str | None

    def __str__(self):
        return "cut(%s,%s)" % (self.row0, self.col0)


def U(unit=None, kind=None, idx=None, num="float", **kw):
    return AV(num=num, exact=False if num == "float" else None,
              unit=fs(*unit.split()) if isinstance(unit, str) else unit,
              kind=fs(*kind.split()) if isinstance(kind, str) else kind,
              idx=idx, **kw)


def colarray(*cols, src=frozenset()):
    return AV(num="obj", cls="colarray", elts=tuple(cols), src=src)


DEG = U("deg")
# an angle handed over as a position angle / rotation: its sign matters
ANG = U("deg", "ang")
RAD = U("rad")
ONE = U("1")
LON_DEG, LAT_DEG = U("deg", "lon"), U("deg", "lat")
LON_RAD, LAT_RAD = U("rad", "lon"), U("rad", "lat")
ROW1 = U(idx=Idx("row", 1, "image"))
COL1 = U(idx=Idx("col", 1, "image"))
ROW0 = U(idx=Idx("row", 0, "image"), num="int")
COL0 = U(idx=Idx("col", 0, "image"), num="int")

SRC_CLASSES = {PKG + ".models.SimpleSource", PKG + ".models.ComponentSource",
               PKG + ".models.IslandSource"}
COMP = AV(num="obj", cls=PKG + ".models.ComponentSource")
WCSH = AV(num="obj", cls=PKG + ".wcs_helpers.WCSHelper")
REGION = AV(num="obj", cls=PKG + ".regions.Region")

# contracted attributes of catalogue source objects
SRC_FIELDS = {
    "ra": LON_DEG, "dec": LAT_DEG, "err_ra": DEG, "err_dec": DEG,
    "a": U("arcsec", "fwhm ax1"), "b": U("arcsec", "fwhm ax2"),
    "err_a": U("arcsec"), "err_b": U("arcsec"),
    "psf_a": U("arcsec", "fwhm ax1"), "psf_b": U("arcsec", "fwhm ax2"),
    "pa": ANG, "err_pa": DEG, "psf_pa": ANG,
    "ra_str": AV(num="str", kind=fs("hms", "lon")),
    "dec_str": AV(num="str", kind=fs("dms", "lat")),
}
LMFIT_SUFFIX = {
    "xo": U(idx=Idx("row", 0, ("rel", "island"))),
    "yo": U(idx=Idx("col", 0, ("rel", "island"))),
    "sx": U("pix", "sigma ax1"), "sy": U("pix", "sigma ax2"),
    "theta": ANG,
}

# fitting.errors() is called after result_to_components has rewritten the
# model's xo/yo to 1-based image coordinates (documented in that function)
LMFIT_OVERRIDE = {
    PKG + ".fitting.errors": {"xo": ROW1, "yo": COL1},
    PKG + ".fitting.new_errors": {"xo": ROW1, "yo": COL1},
}
PIX1 = AV(num="obj", elts=(ROW1, COL1))
SKYPOS = AV(num="obj", elts=(LON_DEG, LAT_DEG))

# function contracts: params (name -> AV) and a return builder
W = PKG + ".wcs_helpers.WCSHelper."
A = PKG + ".angle_tools."
CONTRACTS = {
    A + "gcd": dict(params=dict(ra1=LON_DEG, dec1=LAT_DEG, ra2=LON_DEG,
                                dec2=LAT_DEG), ret=lambda a: DEG),
    A + "bear": dict(params=dict(ra1=LON_DEG, dec1=LAT_DEG, ra2=LON_DEG,
                                 dec2=LAT_DEG), ret=lambda a: DEG),
    A + "dec2hms": dict(params=dict(x=U("deg")),
                        ret=lambda a: AV(num="str", kind=fs("hms") | (
                            (a.get("x", TOP).kind or fs()) & POS_KINDS))),
    A + "dec2dms": dict(params=dict(x=U("deg")),
                        ret=lambda a: AV(num="str", kind=fs("dms") | (
                            (a.get("x", TOP).kind or fs()) & POS_KINDS))),
    PKG + ".MIMAS.galactic2fk5": dict(
        params=dict(l=LON_RAD, b=LAT_RAD),
        ret=lambda a: AV(num="obj", elts=(LON_RAD, LAT_RAD))),
    A + "translate": dict(params=dict(ra=LON_DEG, dec=LAT_DEG, r=DEG,
                                      theta=ANG),
                          ret=lambda a: SKYPOS),
    W + "pix2sky": dict(params=dict(pixel=PIX1), ret=lambda a: SKYPOS),
    W + "sky2pix": dict(params=dict(pos=SKYPOS),
                        ret=lambda a: AV(num="obj", elts=(ROW1, COL1))),
    W + "sky2pix_vec": dict(params=dict(pos=SKYPOS, r=DEG, pa=ANG),
                            ret=lambda a: AV(num="obj", elts=(
                                ROW1, COL1, U("pix"), ANG))),
    W + "pix2sky_vec": dict(params=dict(pixel=PIX1, r=U("pix"), theta=ANG),
                            ret=lambda a: AV(num="obj", elts=(
                                LON_DEG, LAT_DEG, DEG, ANG))),
    W + "sky2pix_ellipse": dict(
        params=dict(pos=SKYPOS, a=U("deg", "ax1"), b=U("deg", "ax2"),
                    pa=ANG),
        ret=lambda a: AV(num="obj", elts=(
            ROW1, COL1, U("pix", a.get("a", TOP).kind),
            U("pix", a.get("b", TOP).kind), ANG))),
    W + "pix2sky_ellipse": dict(
        params=dict(pixel=PIX1, sx=U("pix", "ax1"), sy=U("pix", "ax2"),
                    theta=ANG),
        ret=lambda a: AV(num="obj", elts=(
            LON_DEG, LAT_DEG, U("deg", a.get("sx", TOP).kind),
            U("deg", a.get("sy", TOP).kind), ANG))),
    W + "get_psf_sky2sky": dict(params=dict(ra=LON_DEG, dec=LAT_DEG),
                                ret=lambda a: AV(num="obj", elts=(
                                    U("deg", "fwhm ax1"),
                                    U("deg", "fwhm ax2"), ANG))),
    W + "get_psf_sky2pix": dict(params=dict(ra=LON_DEG, dec=LAT_DEG),
                                ret=lambda a: AV(num="obj", elts=(
                                    U("pix", "fwhm ax1"),
                                    U("pix", "fwhm ax2"), ANG))),
    W + "get_psf_pix2pix": dict(params=dict(),
                                ret=lambda a: AV(num="obj", elts=(
                                    U("pix", "fwhm ax1"),
                                    U("pix", "fwhm ax2"), ANG))),
    W + "get_skybeam": dict(params=dict(ra=LON_DEG, dec=LAT_DEG),
                            ret=lambda a: AV(num="obj", cls="Beam",
                                             elts=(U("deg", "fwhm ax1"),
                                                   U("deg", "fwhm ax2"),
                                                   ANG))),
    W + "get_beamarea_pix": dict(params=dict(ra=LON_DEG, dec=LAT_DEG),
                                 ret=lambda a: TOP),
    W + "get_beamarea_deg2": dict(params=dict(ra=LON_DEG, dec=LAT_DEG),
                                  ret=lambda a: TOP),
    W + "sky_sep": dict(params=dict(pix1=PIX1, pix2=PIX1),
                        ret=lambda a: DEG),
    PKG + ".fitting.elliptical_gaussian": dict(
        params=dict(x=U(idx=Idx("row", None, None)),
                    y=U(idx=Idx("col", None, None)),
                    xo=U(idx=Idx("row", None, None)),
                    yo=U(idx=Idx("col", None, None)),
                    sx=U("pix", "sigma ax1"), sy=U("pix", "sigma ax2"),
                    theta=ANG),
        ret=lambda a: TOP),
    # the derivative routines take the pixel coordinates in the model's own
    # (first axis, second axis) order
    PKG + ".fitting.jacobian": dict(
        params=dict(x=U(idx=Idx("row", None, None)),
                    y=U(idx=Idx("col", None, None))),
        ret=lambda a: TOP),
    PKG + ".fitting.lmfit_jacobian": dict(
        params=dict(x=U(idx=Idx("row", None, None)),
                    y=U(idx=Idx("col", None, None))),
        ret=lambda a: TOP),
    PKG + ".fitting.emp_jacobian": dict(
        params=dict(x=U(idx=Idx("row", None, None)),
                    y=U(idx=Idx("col", None, None))),
        ret=lambda a: TOP),
    PKG + ".fitting.Cmatrix": dict(
        params=dict(x=U(idx=Idx("row", None, None)),
                    y=U(idx=Idx("col", None, None)),
                    sx=U("pix", "sigma ax1"), sy=U("pix", "sigma ax2"),
                    theta=ANG),
        ret=lambda a: TOP),
    PKG + ".regions.Region.sky2ang": dict(
        params=dict(sky=colarray(LON_RAD, LAT_RAD)),
        ret=lambda a: colarray(U("rad", "colat"), LON_RAD)),
    PKG + ".regions.Region.sky2vec": dict(
        params=dict(sky=colarray(LON_RAD, LAT_RAD)),
        ret=lambda a: AV(num="obj", cls="vectors")),
    PKG + ".regions.Region.vec2sky": dict(
        params=dict(),
        ret=lambda a: colarray(
            U("deg" if a.get("degrees", TOP).cval is True else
              "rad" if a.get("degrees", TOP).cval is False else None, "lon"),
            U("deg" if a.get("degrees", TOP).cval is True else
              "rad" if a.get("degrees", TOP).cval is False else None,
              "lat"))),
    PKG + ".regions.Region.add_circles": dict(
        params=dict(ra_cen=LON_RAD, dec_cen=LAT_RAD,
                    radius=U("rad", "len")),
        ret=lambda a: NONE),
    PKG + ".regions.Region.add_poly": dict(
        params=dict(positions=colarray(LON_RAD, LAT_RAD)),
        ret=lambda a: NONE),
}
# parameter classes for functions taking catalogue objects
PARAM_CLS = {
    (PKG + ".fitting.errors", "source"): COMP,
    (PKG + ".fitting.new_errors", "source"): COMP,
    (PKG + ".fitting.errors", "wcshelper"): WCSH,
    (PKG + ".source_finder.fix_shape", "source"): COMP,
    (PKG + ".cluster.resize", "catalog"): container(COMP),
    (PKG + ".cluster.resize", "psfhelper"): WCSH,
    (PKG + ".cluster.regroup_dbscan", "srccat"): container(COMP),
    (PKG + ".cluster.norm_dist", "src1"): COMP,
    (PKG + ".cluster.norm_dist", "src2"): COMP,
    (PKG + ".cluster.sky_dist", "src1"): COMP,
    (PKG + ".cluster.sky_dist", "src2"): COMP,
    (PKG + ".AeRes.make_model", "sources"): container(COMP),
    (PKG + ".AeRes.make_model", "wcshelper"): WCSH,
    (PKG + ".source_finder.SourceFinder._refit_islands", "group"):
        container(container(COMP)),
    (PKG + ".source_finder.estimate_parinfo_image", "wcshelper"): WCSH,
    (PKG + ".source_finder.find_islands", "wcs"): WCSH,
    # offsets of the island's cut-out inside the image: (row, column)
    (PKG + ".models.PixelIsland.calc_bounding_box", "offsets"):
        AV(num="obj", elts=(ROW0, COL0)),
    (PKG + ".source_finder.find_islands", "region"): REGION,
    (PKG + ".MIMAS.mask_plane", "region"): REGION,
    (PKG + ".MIMAS.mask_plane", "wcs"): AV(num="obj", cls="astropy.WCS"),
    (PKG + ".MIMAS.mask_table", "region"): REGION,
    # names of the table columns holding right ascension / declination
    (PKG + ".MIMAS.mask_table", "racol"): AV(num="str", cls="colname",
                                            kind=fs("lon")),
    (PKG + ".MIMAS.mask_table", "deccol"): AV(num="str", cls="colname",
                                             kind=fs("lat")),
    (PKG + ".MIMAS.combine_regions", "container"):
        AV(num="obj", cls=PKG + ".MIMAS.Dummy"),
}
LEN_R = U(idx=Idx("row", None, None), num="int")
LEN_C = U(idx=Idx("col", None, None), num="int")
SHAPE2 = AV(num="obj", cls="shape", elem=INT, elts=(
    AV(num="int", exact=True, kind=fs("nrows")),
    AV(num="int", exact=True, kind=fs("ncols"))))
# BANE worker: region = (first row, last row + 1) of the stripe; step_size /
# box_size = (extent along rows, extent along columns); shape = (rows, cols)
PARAM_CLS.update({
    (PKG + ".BANE.sigma_filter", "region"): AV(num="obj",
                                              elts=(ROW0, ROW0)),
    (PKG + ".BANE.sigma_filter", "step_size"): AV(num="obj",
                                                 elts=(LEN_R, LEN_C)),
    (PKG + ".BANE.sigma_filter", "box_size"): AV(num="obj",
                                                elts=(LEN_R, LEN_C)),
    (PKG + ".BANE.sigma_filter", "shape"): SHAPE2,
})
GLOBAL_DATA_FIELDS = {"wcshelper": WCSH, "psfhelper": WCSH, "region": REGION}

PIX2WORLD = {"wcs_pix2world", "all_pix2world"}
WORLD2PIX = {"wcs_world2pix", "all_world2pix"}

UFUNC_SAME = {"numpy.abs", "numpy.fabs", "numpy.array", "numpy.asarray",
              "numpy.squeeze", "numpy.ravel", "numpy.copy", "numpy.float64",
              "numpy.nan_to_num", "numpy.atleast_1d", "numpy.mean",
              "numpy.median", "numpy.nanmean", "numpy.max", "numpy.min",
              "numpy.nanmax", "numpy.nanmin", "numpy.clip", "numpy.round",
              "numpy.floor", "numpy.ceil"}
TRIG = {"numpy.sin", "numpy.cos", "numpy.tan", "math.sin", "math.cos",
        "math.tan"}
ATRIG = {"numpy.arcsin", "numpy.arccos", "numpy.arctan", "numpy.arctan2",
         "math.asin", "math.acos", "math.atan", "math.atan2"}


class UnitLib(Lib):
    trusted = Lib.trusted + [
        "numpy: radians/degrees convert deg<->rad; sin/cos/tan take radians; "
        "arcsin/arccos/arctan/arctan2 return radians",
        "numpy.where/indices/mgrid/unravel_index return 0-based "
        "(row, col) index arrays; scipy.ndimage.find_objects returns slices "
        "with 0-based start and exclusive stop per axis",
        "astropy.wcs.WCS.*_pix2world(pairs, origin) takes (x=column, y=row) "
        "pairs whose first pixel has index `origin` and returns degrees; "
        "*_world2pix is its inverse",
        "healpy.ang2pix/ang2vec take (colatitude, longitude) in radians; "
        "query_disc takes the radius in radians; vec2ang returns "
        "(colatitude, longitude) in radians",
        "repository contracts table (aegean_sa/units.py CONTRACTS, "
        "SRC_FIELDS, LMFIT_SUFFIX) transcribed from the docstrings",
    ]

    def __init__(self):
        self.reports = []       # definite contradictions found while folding

    # ---- helpers ---------------------------------------------------------
    def report(self, it, node, rule, msg, facts=None):
        self.reports.append((it.fi, node, rule, msg, facts or {}))

    def param_default(self, it, fi, name, default):
        c = CONTRACTS.get(fi.qualname)
        if c and name in c["params"]:
            return c["params"][name]
        v = PARAM_CLS.get((fi.qualname, name))
        if v is not None:
            return v
        if fi.qualname == PKG + ".regions.Region.sky_within":
            if name == "ra":
                return U(None, "lon")
            if name == "dec":
                return U(None, "lat")
        return super().param_default(it, fi, name, default)

    def specialisations(self, fi):
        if fi.qualname == PKG + ".regions.Region.sky_within":
            # documented: degrees if degin else radians
            return [
                {"degin": True, "ra": LON_DEG, "dec": LAT_DEG},
                {"degin": False, "ra": LON_RAD, "dec": LAT_RAD},
            ]
        if fi.qualname == PKG + ".regions.Region.vec2sky":
            return [{"degrees": True}, {"degrees": False}]
        return None

    def class_attr(self, it, cq, attr):
        if cq in SRC_CLASSES and attr in SRC_FIELDS:
            return SRC_FIELDS[attr]
        if cq == PKG + ".models.GlobalFittingData" and \
                attr in GLOBAL_DATA_FIELDS:
            return GLOBAL_DATA_FIELDS[attr]
        if cq == PKG + ".source_finder.SourceFinder" and attr == "global_data":
            return AV(num="obj", cls=PKG + ".models.GlobalFittingData")
        if cq == PKG + ".models.IslandFittingData" and attr == "offsets":
            return AV(num="obj", elts=(ROW0, ROW0, COL0, COL0))
        if cq == PKG + ".wcs_helpers.WCSHelper":
            if attr in ("_psf_a", "_psf_b"):
                return U("pix", "fwhm ax1" if attr == "_psf_a"
                         else "fwhm ax2")
            if attr == "_psf_theta":
                return ANG
            if attr == "wcs":
                return AV(num="obj", cls="astropy.WCS")
        if cq == PKG + ".regions.Region" and attr == "maxdepth":
            return INT
        if cq == PKG + ".MIMAS.Dummy" and attr in ("include_circles",
                                                   "exclude_circles"):
            # documented: [[ra, dec, radius], ...], units are degrees
            return container(AV(num="obj", cls="flatarray",
                                elts=(LON_DEG, LAT_DEG, U("deg", "len"))))
        if cq == PKG + ".MIMAS.Dummy" and attr in ("include_polygons",
                                                   "exclude_polygons"):
            # documented: "units are degrees"
            return container(container(DEG))
        return None

    def attribute(self, it, n, base, env):
        a = n.attr
        if a == "value" and isinstance(n.value, ast.Subscript):
            sk = it.strkey(n.value.slice)
            if sk and sk[1:] in LMFIT_SUFFIX:
                pv = super().attribute(it, n, base, env)
                v = LMFIT_OVERRIDE.get(it.fi.qualname, {}).get(
                    sk[1:], LMFIT_SUFFIX[sk[1:]])
                if pv is not None and pv.src:
                    v = v.with_(src=pv.src)
                return v
        if a == "stderr" and isinstance(n.value, ast.Subscript):
            # the 1-sigma error of xo / yo is a length along that axis
            sk = it.strkey(n.value.slice)
            if sk and sk[1:] in ("xo", "yo"):
                return U(idx=Idx("row" if sk[1:] == "xo" else "col", None,
                                 None))
        if base.cls == "Beam" and base.elts is not None:
            i = {"a": 0, "b": 1, "pa": 2}.get(a)
            if i is not None:
                return base.elts[i]
        if a in ("start", "stop") and base.cls == "slice" and \
                base.idx is not None:
            return AV(num="int", exact=True, idx=base.idx)
        if a == "T" and base.cls == "colarray":
            return AV(num="obj", elts=base.elts, src=base.src)
        if a == "T" and base.cls == "rowarray" and base.elts is not None:
            return colarray(*base.elts, src=base.src)
        if a == "shape":
            return AV(num="obj", cls="shape", elem=INT, elts=(
                AV(num="int", exact=True, kind=fs("nrows")),
                AV(num="int", exact=True, kind=fs("ncols"))))
        return super().attribute(it, n, base, env)

    # ---- unit/kind scale machinery -----------------------------------------
    def apply_scale(self, v: AV, factor: float) -> AV:
        """multiply v by a literal factor"""
        if v.unit is None and v.kind is None:
            return v
        sc = (v.scale if v.scale is not None else 1.0) * factor
        unit, kind = v.unit, v.kind
        if factor < 0:
            kind = self._flip(kind)
            sc = -sc
        hit = False
        if unit is not None:
            add = {t for f, s, t in UNIT_CONV if close(sc, f) and s in unit}
            if add:
                unit = unit | add
                hit = True
        if not hit and kind is not None:
            add = {t for f, s, t in KIND_CONV if close(sc, f) and s in kind}
            if add:
                kind = kind | add
                hit = True
        if hit or close(abs(sc), 1.0):
            return v.with_(unit=unit, kind=kind, scale=None, cval=None)
        # products of one unit and one kind conversion in one literal
        for f1, s1, t1 in UNIT_CONV:
            for f2, s2, t2 in KIND_CONV:
                if close(sc, f1 * f2) and unit is not None and s1 in unit \
                        and kind is not None and s2 in kind:
                    return v.with_(unit=unit | {t1}, kind=kind | {t2},
                                   scale=None, cval=None)
        # an unrecognised scale stays pending: a later factor may complete a
        # conversion (x * 60 * 60); a value that reaches a contract with a
        # pending scale far from 1 is reported there
        return v.with_(scale=sc, cval=None)

    def additive(self, it, node, l: AV, r: AV, res: AV, op) -> AV:
        unit = kind = None
        lu, ru = l.unit, r.unit
        # rational multiples of pi are radian constants in additive context
        for side, other in ((l, r), (r, l)):
            if side.unit is None and isinstance(side.cval, float) and \
                    side.cval != 0 and other.unit is not None:
                q = side.cval / math.pi
                if any(close(q, k / d) for k in range(-8, 9) if k
                       for d in (1, 2, 3, 4, 6)):
                    if side is l:
                        lu = fs("rad")
                    else:
                        ru = fs("rad")
        if lu is not None and ru is not None:
            inter = lu & ru
            if not inter and "1" not in lu and "1" not in ru:
                self.report(it, node, "unit-add",
                            "adding/subtracting values of different units: "
                            "%s %s %s" % (sorted(lu), "+" if isinstance(
                                op, ast.Add) else "-", sorted(ru)),
                            {"left": l.short(), "right": r.short()})
                unit = lu | ru
            else:
                unit = inter or (lu | ru)
        else:
            unit = lu if lu is not None else ru
        lk, rk = l.kind, r.kind
        # colatitude: pi/2 - lat
        if isinstance(op, ast.Sub) and isinstance(l.cval, float) and \
                close(l.cval, math.pi / 2) and rk is not None:
            if "lat" in rk:
                kind = (rk - {"lat"}) | {"colat"}
            elif "colat" in rk:
                kind = (rk - {"colat"}) | {"lat"}
            else:
                kind = rk
        elif lk is not None and rk is not None:
            wl, wr = lk & WIDTH_KINDS, rk & WIDTH_KINDS
            if wl and wr and not (wl & wr):
                self.report(it, node, "kind-add",
                            "adding a %s width to a %s width" %
                            (sorted(wl), sorted(wr)),
                            {"left": l.short(), "right": r.short()})
            pl, pr = lk & POS_KINDS, rk & POS_KINDS
            if pl and pr and not (pl & pr):
                self.report(it, node, "kind-add",
                            "combining a %s with a %s" % (sorted(pl),
                                                          sorted(pr)),
                            {"left": l.short(), "right": r.short()})
            kind = (lk & rk) or None
        else:
            kind = lk if lk is not None else rk
            if lk is None and rk is not None and isinstance(op, ast.Sub):
                kind = self._flip(rk)
        return res.with_(unit=unit, kind=kind)

    def idx_add(self, it, node, l: AV, r: AV, res: AV, op, lnode, rnode):
        li, ri = l.idx, r.idx
        if isinstance(li, Cut) or isinstance(ri, Cut):
            c = li if isinstance(li, Cut) else ri
            return res.with_(idx=c)
        sign = 1 if isinstance(op, ast.Add) else -1
        if isinstance(li, Idx) and not isinstance(ri, Idx):
            if isinstance(r.cval, int) and not isinstance(r.cval, bool) and \
                    r.num == "int":
                k = sign * r.cval
                if k == 1 and li.origin == 0:
                    return res.with_(idx=Idx(li.axis, 1, li.frame,
                                             li.crossed))
                if k == -1 and li.origin == 1:
                    return res.with_(idx=Idx(li.axis, 0, li.frame,
                                             li.crossed))
                if k == 0:
                    return res.with_(idx=li)
                return res.with_(idx=Idx(li.axis, None, li.frame, li.crossed))
            # + an unknown quantity: it may be the cut-out offset or a +1,
            # so frame and origin become unknown (the axis stays)
            if r.num is None and r.cval is None and r.idx is None:
                if li.frame == "image":
                    # an image-frame offset plus an unknown (relative) index
                    return res.with_(idx=Idx(li.axis, li.origin, "image",
                                             li.crossed))
                return res.with_(idx=Idx(li.axis, None, None, li.crossed))
            # + a (sub-pixel) float offset: still a position along the axis
            if r.num in ("float", "ifloat") and r.idx is None:
                if r.cval is None or (isinstance(r.cval, float) and
                                      abs(r.cval) < 1):
                    return res.with_(idx=Idx(li.axis, li.origin, li.frame,
                                             li.crossed))
                return res.with_(idx=Idx(li.axis, None, li.frame, li.crossed))
            return res.with_(idx=Idx(li.axis, None, li.frame, li.crossed))
        if isinstance(ri, Idx) and not isinstance(li, Idx):
            if isinstance(op, ast.Add):
                return self.idx_add(it, node, r, l, res, op, rnode, lnode)
            return res.with_(idx=None)
        if isinstance(li, Idx) and isinstance(ri, Idx):
            if isinstance(op, ast.Sub):
                # difference of two positions: a length (or a relative index)
                if li.axis and ri.axis and li.axis != ri.axis:
                    return res.with_(idx=Idx(li.axis, None, None,
                                             "%s index minus %s offset" %
                                             (li.axis, ri.axis)))
                if ri.frame == "image" and li.frame == "image":
                    return res.with_(idx=Idx(li.axis, li.origin if
                                             ri.origin == 0 else None,
                                             ("rel", norm(rnode)
                                              if rnode is not None else "?")))
                if isinstance(li.frame, tuple) and ri.frame == "image" and \
                        ri.origin == 0 and li.frame[1] in (
                            "island", "?", norm(rnode)
                            if rnode is not None else "?"):
                    # an index inside the cut-out MINUS the start of the
                    # cut-out: the offset is applied in the wrong direction
                    return res.with_(idx=Idx(
                        li.axis, None, None,
                        "cut-out index minus the cut-out's start (%s)" %
                        (norm(rnode) if rnode is not None else "?")))
                return res.with_(idx=None)
            # relative index + offset
            rel, off, offnode = (li, ri, rnode) if \
                isinstance(li.frame, tuple) or li.frame is None \
                else (ri, li, lnode)
            crossed = rel.crossed or off.crossed
            if rel.axis and off.axis and rel.axis != off.axis:
                crossed = "%s index + %s offset (%s)" % (
                    rel.axis, off.axis,
                    norm(offnode) if offnode is not None else "?")
            frame = None
            if isinstance(rel.frame, tuple) and off.frame == "image":
                sym = rel.frame[1]
                if sym in ("island", "?") or offnode is None or \
                        sym == norm(offnode):
                    frame = "image"
                elif rel.axis == off.axis:
                    frame = None
            origin = None
            if rel.origin is not None and off.origin == 0:
                origin = rel.origin
            return res.with_(idx=Idx(rel.axis, origin, frame, crossed))
        return res

    def binop(self, it, op, l, r, res, node, lnode, rnode):
        if isinstance(op, (ast.Add, ast.Sub)):
            res = self.additive(it, node, l, r, res, op)
            res = self.idx_add(it, node, l, r, res, op, lnode, rnode)
            if l.cls == "colarray" and r.cls != "colarray" and \
                    l.elts is not None:
                return colarray(*[self.binop(it, op, c, r, TOP, node, None,
                                             None) for c in l.elts],
                                src=l.src)
            return res
        if isinstance(op, (ast.Mult, ast.Div, ast.FloorDiv)):
            # a length along an image axis (box height, step, stderr of xo)
            # scaled by a plain number is still a length along that axis
            for side, other, first in ((l, r, True), (r, l, False)):
                if isinstance(side.idx, Idx) and side.idx.frame is None \
                        and side.idx.origin is None and other.idx is None \
                        and other.unit is None and \
                        isinstance(other.cval, (int, float)) and \
                        not isinstance(other.cval, bool) and \
                        (first or isinstance(op, ast.Mult)):
                    return res.with_(idx=side.idx)
            if isinstance(op, ast.FloorDiv):
                return res
        if isinstance(op, (ast.Mult, ast.Div)):
            lc = l.cval if isinstance(l.cval, (int, float)) and \
                not isinstance(l.cval, bool) else None
            rc = r.cval if isinstance(r.cval, (int, float)) and \
                not isinstance(r.cval, bool) else None
            if l.cls == "colarray" and l.elts is not None and rc is not None:
                return colarray(*[self.binop(it, op, c, r, TOP, node, None,
                                             None) for c in l.elts],
                                src=l.src)
            if rc is not None and rc != 0 and (l.unit is not None or
                                               l.kind is not None):
                f = rc if isinstance(op, ast.Mult) else 1.0 / rc
                v = self.apply_scale(l, f)
                return res.with_(unit=v.unit, kind=v.kind, scale=v.scale,
                                 idx=None)
            if lc is not None and lc != 0 and isinstance(op, ast.Mult) and \
                    (r.unit is not None or r.kind is not None):
                v = self.apply_scale(r, lc)
                return res.with_(unit=v.unit, kind=v.kind, scale=v.scale,
                                 idx=None)
            # dimensionless factor keeps the other side's unit
            if r.unit is not None and "1" in r.unit and l.unit is not None \
                    and "1" not in l.unit:
                return res.with_(unit=l.unit, kind=l.kind, scale=l.scale)
            if l.unit is not None and "1" in l.unit and r.unit is not None \
                    and "1" not in r.unit and isinstance(op, ast.Mult):
                return res.with_(unit=r.unit, kind=r.kind, scale=r.scale)
            if l.unit is not None and r.unit is not None and \
                    "1" in l.unit and "1" in r.unit:
                return res.with_(unit=fs("1"))
            if isinstance(l.idx, Cut) or isinstance(r.idx, Cut):
                return res.with_(idx=l.idx if isinstance(l.idx, Cut)
                                 else r.idx)
            return res.with_(unit=None, kind=None, idx=None)
        if isinstance(op, ast.Pow):
            return res.with_(unit=None, kind=None, idx=None)
        return res

    @staticmethod
    def _flip(kind):
        if kind is None:
            return fs("neg")
        return (kind - {"neg"}) if "neg" in kind else (kind | {"neg"})

    def negate(self, it, node, v, res):
        k = self._flip(v.kind) if (v.unit is not None or
                                   v.kind is not None) else v.kind
        return res.with_(unit=v.unit, kind=k, scale=None
                         if v.scale is None else -v.scale)

    # ---- subscripts ----------------------------------------------------------
    def subscript(self, it, n, base, ivs, env):
        sl = n.slice
        if ivs and len(ivs) == 1 and ivs[0] is not None and \
                ivs[0].cls == "colname" and ivs[0].kind:
            # table[<name of the ra / dec column>]
            return container(U(None, ivs[0].kind), cls="ndarray").with_(
                kind=ivs[0].kind)
        if base.cls == "colarray" and base.elts is not None and \
                isinstance(sl, ast.Tuple) and len(sl.elts) == 2 and \
                isinstance(sl.elts[0], ast.Slice):
            c = sl.elts[1]
            if isinstance(c, ast.Constant) and isinstance(c.value, int) and \
                    -len(base.elts) <= c.value < len(base.elts):
                return base.elts[c.value].with_(src=base.src |
                                                base.elts[c.value].src)
            if isinstance(c, ast.List) and all(
                    isinstance(e, ast.Constant) and isinstance(e.value, int)
                    for e in c.elts):
                return colarray(*[base.elts[e.value] for e in c.elts],
                                src=base.src)
            return None
        if base.cls == "colarray" and base.elts is not None and \
                ivs is None:
            return base              # row slice keeps the columns
        if isinstance(n.value, ast.Attribute) and \
                it.prog.dotted(it.mod, n.value) in ("numpy.mgrid",
                                                    "numpy.ogrid") and \
                isinstance(sl, ast.Tuple) and len(sl.elts) == 2:
            def grid(ax, part):
                lo = part.lower if isinstance(part, ast.Slice) else None
                lv = it.eval(lo, env) if lo is not None else None
                fr = "image"
                if lv is not None and isinstance(lv.idx, Idx) and \
                        isinstance(lv.idx.frame, tuple):
                    fr = lv.idx.frame
                return container(INT, cls="ndarray").with_(
                    idx=Idx(ax, 0, fr))
            return AV(num="obj", cls="indextuple",
                      elts=(grid("row", sl.elts[0]), grid("col", sl.elts[1])))
        if base.cls == "find_objects":
            return AV(num="obj", cls="slicetuple")
        if base.cls == "slicetuple":
            k = ivs[0].cval if ivs and isinstance(ivs[0].cval, int) else None
            if k in (0, 1):
                return AV(num="obj", cls="slice",
                          idx=Idx("row" if k == 0 else "col", 0, "image"))
            return AV(num="obj", cls="slice")
        if base.cls == "shape" and ivs and isinstance(ivs[0].cval, int) and \
                base.elts is not None and ivs[0].cval in (0, 1):
            return base.elts[ivs[0].cval]
        # one pixel of a 2-d array  arr[r, c]: the first index runs along
        # rows, the second along columns
        if isinstance(sl, ast.Tuple) and len(sl.elts) == 2 and \
                not any(isinstance(e, (ast.Slice, ast.Starred))
                        for e in sl.elts) and \
                base.cls in ("ndarray", None) and base.elts is None:
            for pos, e in enumerate(sl.elts):
                ev_ = it.eval(e, env)
                want = "row" if pos == 0 else "col"
                if isinstance(ev_.idx, Idx) and ev_.idx.axis and \
                        ev_.idx.axis != want:
                    self.report(it, n, "idx-slice-axis",
                                "a %s index (%s) is used as the %s index "
                                "of a 2-d array" % (ev_.idx.axis, norm(e),
                                                    want),
                                {"index": ev_.short()})
                elif isinstance(ev_.idx, Idx) and ev_.idx.crossed:
                    self.report(it, n, "idx-slice-axis",
                                "the %s index %s of a 2-d array mixes the "
                                "axes: %s" % (want, norm(e),
                                              ev_.idx.crossed),
                                {"index": ev_.short()})
        # image cut-outs  arr[r0:r1, c0:c1]
        if isinstance(sl, ast.Tuple) and len(sl.elts) == 2 and \
                all(isinstance(e, ast.Slice) for e in sl.elts) and \
                base.cls in ("ndarray", None) and base.elts is None:
            r0 = sl.elts[0].lower
            c0 = sl.elts[1].lower
            rv = it.eval(r0, env) if r0 is not None else None
            cv = it.eval(c0, env) if c0 is not None else None

            def strip(x):
                # int(xmin) -> xmin
                if isinstance(x, ast.Call) and norm(x.func) == "int" and \
                        len(x.args) == 1:
                    return x.args[0]
                return x
            # axis check of the slice bounds themselves (lower and upper)
            r1, c1 = sl.elts[0].upper, sl.elts[1].upper
            rv1 = it.eval(r1, env) if r1 is not None else None
            cv1 = it.eval(c1, env) if c1 is not None else None
            for pos, (bnode, bv) in ((0, (r0, rv)), (1, (c0, cv)),
                                     (0, (r1, rv1)), (1, (c1, cv1))):
                want = "row" if pos == 0 else "col"
                if bv is not None and isinstance(bv.idx, Idx) and \
                        bv.idx.axis and bv.idx.axis != want and \
                        isinstance(base.idx, Cut) is False:
                    self.report(it, n, "idx-slice-axis",
                                "a %s index (%s) is used as the %s bound of "
                                "a 2-d slice" % (bv.idx.axis, norm(bnode),
                                                 want),
                                {"bound": bv.short()})
                elif bv is not None and isinstance(bv.idx, Idx) and \
                        bv.idx.crossed:
                    self.report(it, n, "idx-slice-axis",
                                "the %s bound %s of a 2-d slice mixes the "
                                "axes: %s" % (want, norm(bnode),
                                              bv.idx.crossed),
                                {"bound": bv.short()})
            cut = Cut(norm(strip(r0)) if r0 is not None else "0",
                      norm(strip(c0)) if c0 is not None else "0")
            if isinstance(base.idx, Cut):
                cut = None          # cut of a cut: frame unknown
            el = base.elem if base.elem is not None else FLOAT
            return AV(num="obj", cls="ndarray", elem=el, idx=cut,
                      src=base.src)
        return super().subscript(it, n, base, ivs, env)

    def iter_elem(self, it, v, node):
        if v.cls == "find_objects":
            return AV(num="obj", cls="slicetuple")
        if v.cls == "colarray" and v.elts is not None:
            return AV(num="obj", elts=v.elts, src=v.src)
        if isinstance(v.idx, Idx) or v.unit is not None or \
                v.kind is not None:
            return AV(num=v.elem.num if v.elem is not None else None,
                      unit=v.unit, kind=v.kind,
                      idx=v.idx if isinstance(v.idx, Idx) else None,
                      src=v.src)
        return super().iter_elem(it, v, node)

    def compare(self, it, n, left, comps):
        for v in [left] + list(comps):
            if isinstance(v.idx, Cut):
                return AV(num="obj", cls="ndarray", elem=BOOL, idx=v.idx)
        return None

    def store_subscript(self, it, target, val, env, aug):
        bk = it.key(target.value)
        if bk is None or bk not in env:
            return False
        base = env[bk]
        sl = target.slice
        if isinstance(sl, ast.Tuple) and len(sl.elts) == 2 and \
                isinstance(sl.elts[0], ast.Slice) and \
                isinstance(sl.elts[1], ast.Constant) and \
                isinstance(sl.elts[1].value, int) and \
                base.cls == "colarray" and base.elts is not None and \
                sl.elts[0].lower is None and sl.elts[0].upper is None:
            k = sl.elts[1].value
            if -len(base.elts) <= k < len(base.elts):
                k %= len(base.elts)
                cols = list(base.elts)
                cols[k] = val
                env[bk] = colarray(*cols, src=base.src)
                return True
        if isinstance(sl, ast.Tuple) and len(sl.elts) == 2 and \
                isinstance(sl.elts[0], ast.Slice) and \
                isinstance(sl.elts[1], ast.List) and \
                base.cls == "colarray" and val.cls == "colarray" and \
                all(isinstance(e, ast.Constant) for e in sl.elts[1].elts) \
                and len(sl.elts[1].elts) == len(val.elts):
            cols = list(base.elts)
            for e, v in zip(sl.elts[1].elts, val.elts):
                cols[e.value] = v
            env[bk] = colarray(*cols, src=base.src)
            return True
        if isinstance(sl, ast.Slice) and val.cls == "colarray":
            # rows of a 2-column block stored into a bigger array
            if base.cls == "colarray" and base.elts is not None and \
                    len(base.elts) == len(val.elts):
                env[bk] = colarray(*[join(a, b) for a, b in
                                     zip(base.elts, val.elts)],
                                   src=base.src | val.src)
            else:
                env[bk] = val
            return True
        return False

    def unpack(self, it, val, n, stmt):
        if val.cls == "colarray" and val.elts is not None:
            # iterating rows: each row is a tuple of the columns -- but
            # `a, b = arr` on a 2-column array unpacks ROWS; only transpose()
            # gives columns, handled in call()
            return None
        if val.cls == "indextuple" and val.elts is not None and \
                len(val.elts) == n:
            return list(val.elts)
        return None

    # ---- calls -----------------------------------------------------------------
    def call(self, it, n, dotted, recv, args, kwargs, env):
        f = n.func
        # contracted repo functions: the contract is the summary
        if dotted in CONTRACTS:
            c = CONTRACTS[dotted]
            fi = it.prog.functions.get(dotted)
            bound = {}
            if fi is not None:
                ps = fi.params
                if fi.cls and ps and ps[0] in ("self", "cls"):
                    ps = ps[1:]
                bound = dict(zip(ps, args))
                bound.update({k: v for k, v in kwargs.items() if k in ps})
            ret = c["ret"](bound)
            probs = []
            for p, want in c["params"].items():
                if p in bound:
                    probs += facet_mismatch(want, bound[p], idx=True,
                                            other=False)
                    probs += [x[4:] for x in _taints(bound[p])]
            if probs:
                t = frozenset({"idx!%s(%s): %s" % (
                    dotted.rsplit(".", 1)[1], norm(n.args[0], 40)
                    if n.args else "", "; ".join(sorted(set(probs))))})
                ret = _taint(ret, t)
            return ret
        if dotted == PKG + ".regions.Region.sky_within":
            return container(BOOL, cls="ndarray")
        if isinstance(f, ast.Name) and f.id == "range" and \
                f.id not in env and len(args) in (2, 3):
            # range(first, stop[, step]) over positions along one axis
            ixs = [a.idx for a in args if isinstance(a.idx, Idx)]
            dims = [a.kind & {"nrows", "ncols"} for a in args[:2]
                    if a.kind]
            axes = {i.axis for i in ixs if i.axis} | {
                "row" if "nrows" in d else "col" for d in dims if d}
            if len(axes) == 1 and (ixs or dims):
                ax = axes.pop()
                pos = [i for i in ixs if i.origin is not None or
                       i.frame is not None]
                o = pos[0].origin if pos else (0 if dims else None)
                fr = pos[0].frame if pos else ("image" if dims else None)
                if isinstance(args[0].cval, int) and args[0].cval == 0 \
                        and dims:
                    o, fr = 0, "image"
                return container(AV(num="int", exact=True,
                                    idx=Idx(ax, o, fr)), cls="range")
            if len(axes) > 1:
                self.report(it, n, "idx-crossed",
                            "range() mixes row and column quantities: %s" %
                            norm(n, 70), {})
        if isinstance(f, ast.Name) and f.id == "range" and \
                f.id not in env and len(args) == 1 and \
                args[0].kind is not None and \
                args[0].kind & {"nrows", "ncols"}:
            ax = "row" if "nrows" in args[0].kind else "col"
            return container(AV(num="int", exact=True,
                                idx=Idx(ax, 0, "image")), cls="range")
        if dotted == PKG + ".wcs_helpers.Beam" and len(args) == 3:
            return AV(num="obj", cls="Beam", elts=tuple(args))
        if dotted in (PKG + ".regions.Region.radec2sky",) and len(args) == 2:
            return colarray(self._col(it, args[0]), self._col(it, args[1]))
        if dotted in (PKG + ".regions.Region.sky2ang",) and args:
            a = args[0]
            if a.cls == "colarray" and a.elts and len(a.elts) == 2:
                lon, lat = a.elts
                colat = lat
                if lat.kind is not None and "lat" in lat.kind:
                    colat = lat.with_(kind=(lat.kind - {"lat"}) | {"colat"})
                return colarray(colat, lon)
        if dotted:
            if dotted in ("numpy.radians", "math.radians", "numpy.deg2rad"):
                return self._convert(it, n, args, "deg", "rad", dotted)
            if dotted in ("numpy.degrees", "math.degrees", "numpy.rad2deg"):
                return self._convert(it, n, args, "rad", "deg", dotted)
            if dotted in TRIG and args:
                a = args[0]
                if a.unit is not None and "rad" not in a.unit and \
                        "1" not in a.unit:
                    self.report(it, n, "unit-trig",
                                "%s applied to a value in %s (radians "
                                "required)" % (dotted, sorted(a.unit)),
                                {"arg": a.short()})
                return ONE
            if dotted in ATRIG:
                return RAD
            if dotted in ("numpy.hypot", "math.hypot") and len(args) == 2:
                r = self.additive(it, n, args[0], args[1], FLOAT, ast.Add())
                return r
            if dotted in ("numpy.sqrt", "math.sqrt"):
                return FLOAT
            if dotted == "numpy.clip" and len(args) == 3 and \
                    isinstance(args[0].idx, Idx) and args[0].idx.axis:
                # clamping a position along one axis with the length of the
                # other axis
                one = args[0].idx
                for other in args[1:]:
                    dim = other.kind & {"nrows", "ncols"} if other.kind \
                        else None
                    if dim and ("nrows" in dim) != (one.axis == "row"):
                        return args[0].with_(idx=Idx(
                            one.axis, one.origin, one.frame,
                            "%s index clamped with the length of the %s "
                            "axis" % (one.axis, "row" if "nrows" in dim
                                      else "column")))
            if dotted in UFUNC_SAME and args:
                a = args[0]
                if a.cls == "colarray":
                    return a
                if a.unit is None and a.kind is None and a.idx is None and \
                        a.elem is not None and (a.elem.unit is not None or
                                                a.elem.kind is not None):
                    # a container of unit-carrying values becomes an array
                    # carrying that unit
                    a = a.with_(unit=a.elem.unit, kind=a.elem.kind)
                if dotted in ("numpy.array", "numpy.asarray") and \
                        a.cls == "flatarray" and a.elts is not None:
                    return a
                if dotted in ("numpy.array", "numpy.asarray"):
                    el = a.elem if a.elem is not None else None
                    # np.array(list(zip(a, b))) -> 2-column array
                    if el is not None and el.elts is not None and \
                            a.cls in ("zip", "list", None) and \
                            len(el.elts) >= 2:
                        return colarray(*el.elts)
                    if a.elts is not None and a.elts and all(
                            e.elts is not None and len(e.elts) ==
                            len(a.elts[0].elts) for e in a.elts):
                        # np.array([(ra, dec)]) -> columns
                        cols = []
                        for k in range(len(a.elts[0].elts)):
                            c = a.elts[0].elts[k]
                            for e in a.elts[1:]:
                                c = join(c, e.elts[k])
                            cols.append(c)
                        return colarray(*cols)
                base = super().call(it, n, dotted, recv, args, kwargs, env)
                if base is None:
                    base = TOP
                return base.with_(unit=a.unit, kind=a.kind, idx=a.idx,
                                  scale=a.scale, src=base.src | a.src)
            if dotted in ("numpy.any", "numpy.all", "numpy.sum",
                          "numpy.nansum", "numpy.max", "numpy.nanmax") and \
                    args and "axis" in kwargs and \
                    isinstance(kwargs["axis"].cval, int) and \
                    kwargs["axis"].cval in (0, 1):
                # reducing a 2-d array along one axis leaves the other
                left = "col" if kwargs["axis"].cval == 0 else "row"
                return AV(num="obj", cls="ndarray", kind=fs("vec_" + left))
            if dotted in ("numpy.where", "numpy.nonzero",
                          "numpy.flatnonzero") and len(args) == 1 and \
                    args[0].kind is not None and \
                    args[0].kind & {"vec_row", "vec_col"}:
                ax = "row" if "vec_row" in args[0].kind else "col"
                v = AV(num="int", exact=True, idx=Idx(ax, 0, ("rel", "?")))
                return AV(num="obj", cls="indextuple", elts=(
                    container(v, cls="ndarray").with_(idx=v.idx),))
            if dotted in ("numpy.where", "numpy.nonzero") and len(args) == 1:
                a = args[0]
                fr = a.idx if isinstance(a.idx, Cut) else None
                r = AV(num="int", exact=True, idx=Idx(
                    "row", 0, ("rel", fr.row0) if fr and fr.row0 != "0"
                    else ("image" if fr or a.cls == "ndarray" else None)))
                c = AV(num="int", exact=True, idx=Idx(
                    "col", 0, ("rel", fr.col0) if fr and fr.col0 != "0"
                    else ("image" if fr or a.cls == "ndarray" else None)))
                return AV(num="obj", cls="indextuple",
                          elts=(container(r, cls="ndarray").with_(idx=r.idx),
                                container(c, cls="ndarray").with_(idx=c.idx)))
            if dotted == "numpy.arange" and len(args) == 1 and \
                    args[0].kind is not None and \
                    args[0].kind & {"nrows", "ncols"}:
                ax = "row" if "nrows" in args[0].kind else "col"
                ix = Idx(ax, 0, "image")
                return container(AV(num="int", exact=True, idx=ix),
                                 cls="ndarray").with_(idx=ix)
            if dotted == "numpy.meshgrid" and len(args) >= 2:
                # coordinate matrices: the k-th result holds values of the
                # k-th argument whatever the indexing convention
                out = []
                for a in args:
                    ix = a.idx if isinstance(a.idx, Idx) else (
                        a.elem.idx if a.elem is not None and
                        isinstance(a.elem.idx, Idx) else None)
                    out.append(container(AV(num="int", exact=True, idx=ix),
                                         cls="ndarray").with_(idx=ix)
                               if ix is not None else container(INT, cls="ndarray"))
                return AV(num="obj", cls="indextuple", elts=tuple(out))
            if dotted in ("numpy.column_stack", "numpy.stack",
                          "numpy.vstack", "numpy.dstack") and args and \
                    args[0].elts is not None and len(args[0].elts) == 2:
                ax = kwargs.get("axis")
                if dotted == "numpy.column_stack" or (
                        dotted == "numpy.stack" and ax is not None and
                        ax.cval in (1, -1)):
                    return colarray(*[self._col(it, e)
                                      for e in args[0].elts])
                if dotted == "numpy.vstack" or (
                        dotted == "numpy.stack" and
                        (ax is None or ax.cval == 0)):
                    # rows; .T / .transpose() turns them into columns
                    return AV(num="obj", cls="rowarray",
                              elts=tuple(self._col(it, e)
                                         for e in args[0].elts))
            if dotted in ("numpy.indices",) and args:
                r = container(INT, cls="ndarray").with_(
                    idx=Idx("row", 0, "image"))
                c = container(INT, cls="ndarray").with_(
                    idx=Idx("col", 0, "image"))
                return AV(num="obj", cls="indextuple", elts=(r, c))
            if dotted == "numpy.unravel_index" and len(args) == 2:
                fr = args[1]
                return AV(num="obj", cls="indextuple", elts=(
                    AV(num="int", exact=True,
                       idx=Idx("row", 0, ("rel", "?"))),
                    AV(num="int", exact=True,
                       idx=Idx("col", 0, ("rel", "?")))))
            if dotted in ("healpy.vec2ang",):
                return AV(num="obj", elts=(U("rad", "colat"),
                                           U("rad", "lon")))
        # comparisons / ufunc-style methods keep the cut-out frame
        if isinstance(f, ast.Attribute):
            a = f.attr
            if recv is None:
                recv = it.eval(f.value, env)
            if a in PIX2WORLD or a in WORLD2PIX:
                return self._wcs_call(it, n, a, recv, args, kwargs)
            if a == "reshape" and recv.cls == "flatarray" and \
                    recv.elts is not None and args and \
                    args[0].cval == len(recv.elts):
                return AV(num="obj", elts=recv.elts, src=recv.src)
            if a in ("transpose",) and recv.cls == "colarray":
                return AV(num="obj", elts=recv.elts, src=recv.src)
            if a == "transpose" and recv.cls == "rowarray" and \
                    recv.elts is not None and not args:
                return colarray(*recv.elts, src=recv.src)
            if a == "transpose" and recv.cls == "skypairs":
                return AV(num="obj", elts=(LON_DEG.with_(src=recv.src),
                                           LAT_DEG.with_(src=recv.src)),
                          src=recv.src)
            if a in ("copy", "astype", "ravel", "flatten", "reshape",
                     "tolist") and \
                    (recv.unit is not None or recv.idx is not None or
                     recv.cls == "colarray"):
                if a == "reshape" and recv.cls == "colarray":
                    return None
                return recv
            if a == "reshape" and recv.cls == "colarray" and args:
                return None
        if isinstance(f, ast.Name) and f.id == "zip" and \
                len(n.args) == 1 and isinstance(n.args[0], ast.Starred):
            a = args[0]
            if a.cls == "colarray" and a.elts is not None:
                return AV(num="obj", elts=a.elts, src=a.src)
        if isinstance(f, ast.Name) and f.id in ("list", "tuple") and args \
                and args[0].cls == "colarray":
            return args[0]
        if isinstance(f, ast.Name) and f.id in ("int", "round", "float") \
                and args and isinstance(args[0].idx, Idx):
            base = super().call(it, n, dotted, recv, args, kwargs, env) or TOP
            return base.with_(idx=args[0].idx)
        if isinstance(f, ast.Name) and f.id in ("min", "max") and \
                len(args) == 2 and f.id not in env:
            # comparing two quantities: same rules as adding them
            chk = self.additive(it, n, args[0], args[1], FLOAT, ast.Add())
            base = super().call(it, n, dotted, recv, args, kwargs, env)
            ix = None
            ia, ib = args[0].idx, args[1].idx
            if isinstance(ia, Idx) and isinstance(ib, Idx):
                if ia.axis and ib.axis and ia.axis != ib.axis:
                    ix = Idx(ia.axis, None, None,
                             "%s(...) of a %s and a %s quantity" %
                             (f.id, ia.axis, ib.axis))
                else:
                    ix = Idx(ia.axis or ib.axis,
                             ia.origin if ia.origin == ib.origin else None,
                             ia.frame if ia.frame == ib.frame else None,
                             ia.crossed or ib.crossed)
            elif isinstance(ia, Idx) or isinstance(ib, Idx):
                one, other = (ia, args[1]) if isinstance(ia, Idx) \
                    else (ib, args[0])
                ix = one
                dim = other.kind & {"nrows", "ncols"} if other.kind else None
                if dim and one.axis and \
                        ("nrows" in dim) != (one.axis == "row"):
                    ix = Idx(one.axis, one.origin, one.frame,
                             "%s index clamped with the length of the %s "
                             "axis" % (one.axis, "row" if "nrows" in dim
                                       else "column"))
            # the larger / smaller of the two axes of an ellipse is no
            # longer "the first axis" or "the second axis": whoever consumes
            # it with an axis role must also have re-labelled the angle
            ka = (args[0].kind or frozenset()) & AXIS_KINDS
            kb = (args[1].kind or frozenset()) & AXIS_KINDS
            knd = chk.kind
            # ... when the pair is SORTED, i.e. the function also takes
            # the other extremum of the same two values (a single max() that
            # nudges one axis keeps its role)
            other_fn = "min" if f.id == "max" else "max"
            pair = sorted(norm(a_) for a_ in n.args)
            sorted_pair = any(
                isinstance(c_, ast.Call) and isinstance(c_.func, ast.Name)
                and c_.func.id == other_fn and len(c_.args) == 2 and
                sorted(norm(a_) for a_ in c_.args) == pair
                for c_ in ast.walk(it.fi.node))
            if ka and kb and ka != kb and sorted_pair:
                knd = (frozenset(knd or ()) - AXIS_KINDS) | {"axmixed"} | (
                    ((args[0].kind or frozenset()) &
                     (args[1].kind or frozenset())) - AXIS_KINDS)
            if base is not None:
                return base.with_(unit=chk.unit, kind=knd, idx=ix)
            return base
        if isinstance(f, ast.Name) and f.id in ("abs", "min", "max") and args:
            base = super().call(it, n, dotted, recv, args, kwargs, env)
            return base
        return super().call(it, n, dotted, recv, args, kwargs, env)

    def _col(self, it, a):
        return a.elem if a.elem is not None and a.unit is None and \
            a.kind is None else a

    def _convert(self, it, n, args, frm, to, dotted):
        if not args:
            return None
        a = args[0]
        if a.cls == "colarray" and a.elts is not None:
            return colarray(*[self._convert(it, n, [c], frm, to, dotted)
                              for c in a.elts], src=a.src)
        if a.cls == "flatarray" and a.elts is not None:
            return AV(num="obj", cls="flatarray", src=a.src, elts=tuple(
                self._convert(it, n, [c], frm, to, dotted) for c in a.elts))
        if a.unit is not None and frm not in a.unit and "1" not in a.unit:
            self.report(it, n, "unit-convert",
                        "%s applied to a value already in %s" %
                        (dotted, sorted(a.unit)), {"arg": a.short()})
        return AV(num="float", exact=False, unit=fs(to), kind=a.kind,
                  src=a.src)

    def _wcs_call(self, it, n, meth, recv, args, kwargs):
        """astropy *_pix2world / *_world2pix with either (pairs, origin) or
        (x, y, origin)"""
        pos = [a for a in args]
        origin = None
        cols = None
        if len(pos) == 2:
            pairs, origin = pos
            if pairs.cls == "colarray" and pairs.elts:
                cols = list(pairs.elts)
            elif pairs.elts is not None and len(pairs.elts) >= 1 and \
                    pairs.elts[0].elts is not None:
                cols = list(pairs.elts[0].elts)          # [[y, x]]
            elif pairs.elem is not None and pairs.elem.elts is not None:
                cols = list(pairs.elem.elts)             # list(zip(a, b))
        elif len(pos) == 3:
            cols = [self._col(it, pos[0]), self._col(it, pos[1])]
            origin = pos[2]
        src = frozenset()
        if meth in PIX2WORLD:
            problems = []
            if cols and len(cols) >= 2:
                for k, want in ((0, "col"), (1, "row")):
                    ix = cols[k].idx if isinstance(cols[k].idx, Idx) else (
                        cols[k].elem.idx if cols[k].elem is not None and
                        isinstance(cols[k].elem.idx, Idx) else None)
                    if ix is None:
                        continue
                    if ix.axis and ix.axis != want:
                        problems.append(
                            "argument %d is a %s index but FITS axis %d is "
                            "the %s axis" % (k + 1, ix.axis, k + 1, want))
                    if ix.crossed:
                        problems.append("argument %d: %s" % (k + 1,
                                                             ix.crossed))
                    if ix.origin is not None and origin is not None and \
                            isinstance(origin.cval, int) and \
                            ix.origin != origin.cval:
                        problems.append(
                            "argument %d is %d-based but origin=%d is passed"
                            % (k + 1, ix.origin, origin.cval))
                    if isinstance(ix.frame, tuple):
                        problems.append(
                            "argument %d is relative to the cut-out (%s), "
                            "not to the image" % (k + 1, ix.frame[1]))
            if problems:
                src = frozenset({"idx!" + "; ".join(problems)})
                self.report(it, n, "idx-taint", "; ".join(problems),
                            {"call": norm(n, 80)})
            if len(pos) == 3:
                return AV(num="obj", elts=(LON_DEG.with_(src=src),
                                           LAT_DEG.with_(src=src)), src=src)
            return AV(num="obj", cls="skypairs", src=src,
                      elem=AV(num="obj", elts=(LON_DEG.with_(src=src),
                                               LAT_DEG.with_(src=src))))
        # world2pix
        if cols and len(cols) >= 2:
            for k, want in ((0, "lon"), (1, "lat")):
                kd = cols[k].kind
                if kd is not None and kd & POS_KINDS and want not in kd:
                    self.report(it, n, "kind-arg",
                                "world2pix argument %d is a %s, expected %s"
                                % (k + 1, sorted(kd), want), {})
                un = cols[k].unit
                if un is not None and "deg" not in un:
                    self.report(it, n, "unit-arg",
                                "world2pix argument %d is in %s, degrees "
                                "expected" % (k + 1, sorted(un)), {})
        o = origin.cval if origin is not None and \
            isinstance(origin.cval, int) else None
        c = U(idx=Idx("col", o, "image"))
        r = U(idx=Idx("row", o, "image"))
        if len(pos) == 3:
            return AV(num="obj", elts=(c, r))
        return AV(num="obj", cls="pixpairs", elem=AV(num="obj", elts=(c, r)),
                  elts=(AV(num="obj", elts=(c, r)),))


def _taints(v: AV):
    out = {x for x in v.src if x.startswith("idx!")}
    for e in (v.elts or ()):
        out |= _taints(e)
    if v.elem is not None:
        out |= _taints(v.elem)
    return out


def _taint(v: AV, t):
    if v.elts is not None:
        return v.with_(elts=tuple(_taint(e, t) for e in v.elts),
                       src=v.src | t)
    return v.with_(src=v.src | t)


# --------------------------------------------------------------------------
# contract checking observer
# --------------------------------------------------------------------------
# functions whose purpose is to re-label the two axes of a source (a >= b)
AXIS_RELABEL = {PKG + ".source_finder.fix_shape"}


def facet_mismatch(want: AV, got: AV, idx=True, other=True, axes=True):
    """list of definite contradictions between a contracted and an actual
    value (only facets known on both sides)"""
    out = []
    if want.elts is not None:
        gelts = got.elts
        if gelts is not None and len(gelts) == len(want.elts):
            for i, (w, g) in enumerate(zip(want.elts, gelts)):
                for m in facet_mismatch(w, g, idx, other, axes):
                    out.append("element %d: %s" % (i, m))
        return out
    if not other:
        pass
    elif want.unit is not None and got.unit is not None and \
            not (want.unit & got.unit) and "1" not in got.unit:
        out.append("unit %s where %s is required" %
                   (sorted(got.unit), sorted(want.unit)))
    elif want.unit is not None and got.unit is not None and \
            got.scale is not None and "1" not in got.unit and \
            (abs(got.scale) >= 1.5 or abs(got.scale) <= 1 / 1.5):
        out.append("a value in %s multiplied by %.6g (not a unit or width "
                   "conversion) where %s is required" %
                   (sorted(got.unit), got.scale, sorted(want.unit)))
    if other and want.kind is not None and got.kind is not None:
        for fam in (WIDTH_KINDS, POS_KINDS, SEXA_KINDS) + (
                (AXIS_KINDS,) if axes else ()):
            w, g = want.kind & fam, got.kind & fam
            if w and g and not (w & g):
                out.append("%s where %s is required" % (sorted(g),
                                                        sorted(w)))
    if other and want.kind is not None and got.kind is not None:
        # an angular LENGTH (radius, separation) is not a coordinate
        if "len" in want.kind and got.kind & POS_KINDS:
            out.append("a %s coordinate where an angular length is required"
                       % sorted(got.kind & POS_KINDS))
        if "len" in got.kind and want.kind & POS_KINDS:
            out.append("an angular length where a %s coordinate is required"
                       % sorted(want.kind & POS_KINDS))
    if other and want.kind is not None and "ang" in want.kind and \
            got.kind is not None and "neg" in got.kind:
        out.append("the NEGATED angle where the angle itself is required "
                   "(position angles are measured East of North, rotations "
                   "counter-clockwise: the sign is part of the convention)")
    if idx and isinstance(want.idx, Idx) and isinstance(got.idx, Idx):
        wi, gi = want.idx, got.idx
        if wi.axis and gi.axis and wi.axis != gi.axis:
            out.append("%s index where a %s index is required" %
                       (gi.axis, wi.axis))
        if wi.origin is not None and gi.origin is not None and \
                wi.origin != gi.origin:
            out.append("%d-based index where a %d-based one is required" %
                       (gi.origin, wi.origin))
        if gi.crossed:
            out.append(gi.crossed)
        if wi.frame == "image" and isinstance(gi.frame, tuple):
            out.append("index relative to the cut-out (%s) where an image "
                       "index is required" % gi.frame[1])
    return out


class _Sites(dict):
    """counts examined sites per kind and remembers them as obligations"""

    def __init__(self, obs):
        super().__init__({"call": 0, "store": 0, "sink": 0, "lmfit": 0})
        self.obs = obs

    def __setitem__(self, k, v):
        super().__setitem__(k, v)
        cur = self.obs._cur
        if cur is not None:
            it, node = cur
            self.obs.examined[(it.fi.qualname, getattr(node, "lineno", 0),
                               getattr(node, "col_offset", 0), k)] = \
                norm(node, 90)


class ContractObs(Observer):
    """collects (fi, node, kind, message, facts) for:
       call   -- argument contradicts the callee's contract
       store  -- value stored to a contracted source field contradicts it
       sink   -- an index-tainted sky position reaches a position sink"""

    def __init__(self, lib: UnitLib):
        self.lib = lib
        self.found = []
        self.sites = _Sites(self)
        self.examined = {}        # (qualname, line, col, kind) -> text
        self._seen = set()
        self._cur = None

    def add(self, it, node, kind, msg, facts=None):
        key = (it.fi.qualname, getattr(node, "lineno", 0),
               getattr(node, "col_offset", 0), kind, msg)
        if key in self._seen:
            return
        self._seen.add(key)
        self.found.append((it.fi, node, kind, msg, facts or {}))

    def on_call(self, it, node, dotted, args, kwargs, result):
        if it.depth:
            return
        self._cur = (it, node)
        c = CONTRACTS.get(dotted)
        if c:
            fi = it.prog.functions.get(dotted)
            if fi is None:
                return
            ps = fi.params
            if fi.cls and ps and ps[0] in ("self", "cls"):
                ps = ps[1:]
            bound = dict(zip(ps, args))
            bound.update({k: v for k, v in kwargs.items() if k in ps})
            for p, want in c["params"].items():
                if p in bound:
                    self.sites["call"] += 1
                    for m in facet_mismatch(want, bound[p], idx=False):
                        self.add(it, node, "call",
                                 "argument '%s' of %s: %s" %
                                 (p, dotted[len(PKG) + 1:], m),
                                 {"arg": bound[p].short(),
                                  "contract": want.short()})
                    # pure axis-role contracts (which axis a coordinate
                    # array runs along, no origin): a crossed pair is
                    # reported here, its result reaches no index sink
                    if isinstance(want.idx, Idx) and want.idx.axis and \
                            want.idx.origin is None and \
                            isinstance(bound[p].idx, Idx) and \
                            bound[p].idx.axis and \
                            bound[p].idx.axis != want.idx.axis:
                        self.add(it, node, "call",
                                 "argument '%s' of %s runs along the %s axis "
                                 "where the %s axis is required (the two "
                                 "coordinate arrays are crossed)" %
                                 (p, dotted[len(PKG) + 1:],
                                  bound[p].idx.axis, want.idx.axis),
                                 {"arg": bound[p].short(),
                                  "contract": want.short()})
        if dotted == PKG + ".regions.Region.sky_within":
            args = list(args)
            if len(args) < 1 and "ra" in kwargs:
                args.append(kwargs["ra"])
            if len(args) < 2 and "dec" in kwargs:
                args.append(kwargs["dec"])
        if dotted == PKG + ".regions.Region.sky_within" and len(args) >= 2:
            self.sites["sink"] += 1
            degin = kwargs.get("degin", args[2] if len(args) > 2 else None)
            want = None
            if degin is None or degin.cval is False:
                want = "rad"
            elif degin.cval is True:
                want = "deg"
            for k, (a, kd) in enumerate(zip(args[:2], ("lon", "lat"))):
                el = a
                t = [s for s in (a.src | (a.elem.src if a.elem is not None
                                          else frozenset()))
                     if s.startswith("idx!")]
                if t:
                    self.add(it, node, "sink",
                             "sky position computed from mis-typed pixel "
                             "indices reaches Region.sky_within: %s" %
                             t[0][4:], {"arg": a.short()})
                if want and el.unit is not None and want not in el.unit:
                    self.add(it, node, "call",
                             "sky_within(degin=%s) expects %s, argument %d "
                             "is in %s" % (degin.cval if degin is not None
                                           else False, want, k + 1,
                                           sorted(el.unit)),
                             {"arg": el.short()})
                if el.kind is not None and el.kind & POS_KINDS and \
                        kd not in el.kind:
                    self.add(it, node, "call",
                             "sky_within argument %d is a %s, expected %s" %
                             (k + 1, sorted(el.kind & POS_KINDS), kd), {})
        if dotted == PKG + ".fitting.elliptical_gaussian" and \
                len(args) >= 6:
            self.sites["sink"] += 1
            for g, c, nm in ((args[0], args[3], "xo"),
                             (args[1], args[4], "yo")):
                gi = g.idx if isinstance(g.idx, Idx) else (
                    g.elem.idx if g.elem is not None and
                    isinstance(g.elem.idx, Idx) else None)
                ci = c.idx if isinstance(c.idx, Idx) else None
                for t in _taints(c):
                    self.add(it, node, "sink", "model centre %s is computed "
                             "from mis-typed pixel indices: %s" % (nm, t[4:]),
                             {})
                if gi is None or ci is None:
                    continue
                if gi.axis and ci.axis and gi.axis != ci.axis:
                    self.add(it, node, "sink",
                             "model centre %s is a %s coordinate but the "
                             "grid argument is a %s index" %
                             (nm, ci.axis, gi.axis), {})
                if gi.origin is not None and ci.origin is not None and \
                        gi.origin != ci.origin:
                    self.add(it, node, "sink",
                             "model centre %s is %d-based but the pixel grid "
                             "it is evaluated on is %d-based (one-pixel "
                             "shift of the model)" %
                             (nm, ci.origin, gi.origin),
                             {"centre": c.short(), "grid": g.short()})
        # params.add(prefix + 'sx', value=v)
        if isinstance(node.func, ast.Attribute) and node.func.attr == "add" \
                and node.args and "value" in kwargs:
            sk = it.strkey(node.args[0])
            if sk and sk[1:] in LMFIT_SUFFIX:
                self.sites["lmfit"] += 1
                want = LMFIT_SUFFIX[sk[1:]]
                got = kwargs["value"]
                w2 = want
                if isinstance(want.idx, Idx):
                    # axis and origin only; frame is shifted later
                    w2 = want.with_(idx=Idx(want.idx.axis, want.idx.origin,
                                            None))
                for m in facet_mismatch(w2, got):
                    self.add(it, node, "lmfit",
                             "initial value of parameter '%s': %s" %
                             (sk[1:], m), {"value": got.short(),
                                           "contract": want.short()})
        # healpy conventions
        if dotted in ("healpy.ang2pix", "healpy.ang2vec"):
            off = 1 if dotted == "healpy.ang2pix" else 0
            for k, (kd, nm) in enumerate((("colat", "theta"),
                                          ("lon", "phi"))):
                if len(args) > off + k:
                    a = args[off + k]
                    self.sites["call"] += 1
                    if a.kind is not None and a.kind & POS_KINDS and \
                            kd not in a.kind:
                        self.add(it, node, "call",
                                 "%s argument %s is a %s, expected %s" %
                                 (dotted, nm, sorted(a.kind & POS_KINDS), kd),
                                 {"arg": a.short()})
                    if a.unit is not None and "rad" not in a.unit:
                        self.add(it, node, "call",
                                 "%s argument %s is in %s, radians expected"
                                 % (dotted, nm, sorted(a.unit)),
                                 {"arg": a.short()})
        if dotted == "astropy.coordinates.SkyCoord" and len(args) >= 2:
            # SkyCoord(lon, lat, ...): first a longitude, then a latitude
            self.sites["call"] += 1
            for k, want in ((0, "lon"), (1, "lat")):
                a = args[k]
                if a.kind is not None and a.kind & POS_KINDS and \
                        want not in a.kind:
                    self.add(it, node, "call",
                             "SkyCoord argument %d is a %s, expected the %s"
                             % (k + 1, sorted(a.kind & POS_KINDS),
                                "longitude (ra / l)" if want == "lon"
                                else "latitude (dec / b)"),
                             {"arg": a.short()})
            # DS9 vertices are printed as RA hours : Dec degrees; the region
            # writer gets hour numerals by dividing the degrees by 15 (or by
            # asking to_string for hours)
            if it.fi.qualname.startswith(PKG + ".regions.") and \
                    args[0].unit is not None and "deg" in args[0].unit and \
                    "hour" not in args[0].unit:
                fmt_hours = any(
                    isinstance(c, ast.Call) and
                    isinstance(c.func, ast.Attribute) and
                    c.func.attr == "to_string" and any(
                        k.arg == "unit" and "hour" in norm(k.value)
                        for k in c.keywords)
                    for c in ast.walk(it.fi.node))
                decl = kwargs.get("unit")
                decl_hours = decl is not None and decl.elts is not None \
                    and False
                if not fmt_hours and not decl_hours:
                    self.add(it, node, "call",
                             "the right ascension handed to SkyCoord is in "
                             "degrees and is printed as such: DS9 reads the "
                             "first sexagesimal field of a vertex as HOURS "
                             "(divide by 15 or format with unit=hour)",
                             {"arg": args[0].short()})
        if dotted == "healpy.query_disc" and len(args) >= 3:
            a = args[2]
            self.sites["call"] += 1
            if a.unit is not None and "rad" not in a.unit:
                self.add(it, node, "call", "healpy.query_disc radius is in "
                         "%s, radians expected" % sorted(a.unit),
                         {"arg": a.short()})
            elif a.unit is not None and a.scale is not None and \
                    (abs(a.scale) >= 1.5 or abs(a.scale) <= 1 / 1.5):
                self.add(it, node, "call", "healpy.query_disc radius is the "
                         "contracted radius multiplied by %.6g (not a unit "
                         "conversion): the disc no longer has the requested "
                         "size" % a.scale, {"arg": a.short()})

    def on_return(self, it, node, val):
        if it.depth:
            return
        c = CONTRACTS.get(it.fi.qualname)
        if not c:
            return
        want = c["ret"](dict(it.env))
        if want is None or want.is_top:
            return
        self._cur = (it, node)
        self.sites["call"] += 1
        got = val
        if got.cls == "skypairs" and got.elem is not None:
            got = got.elem
        for m in facet_mismatch(want, got):
            self.add(it, node, "return",
                     "value returned by %s: %s" % (it.fi.short, m),
                     {"returned": got.short(), "contract": want.short()})
        for t in _taints(got):
            self.add(it, node, "return",
                     "value returned by %s is computed from mis-typed pixel "
                     "indices: %s" % (it.fi.short, t[4:]), {})

    def on_store(self, it, target, key, val, stmt):
        if it.depth:
            return
        if isinstance(target, ast.Name) and any(
                o == target.id for o, _ in getattr(it, "_field_stores", {})):
            # the name is re-bound to another object: the fields of the old
            # one are final now (it has been appended / returned)
            self._check_fields(it, it.env, only_obj=target.id)
        if isinstance(target, ast.Attribute) and target.attr in SRC_FIELDS:
            base = it.eval(target.value, it.env)
            c = base.cls[6:] if base.cls and base.cls.startswith("class:") \
                else base.cls
            if c in SRC_CLASSES:
                self._cur = (it, stmt)
                self.sites["store"] += 1
                want = SRC_FIELDS[target.attr]
                t = [s for s in val.src if s.startswith("idx!")]
                if t and target.attr in ("ra", "dec", "err_ra", "err_dec"):
                    self.add(it, stmt, "sink",
                             "catalogue position %s is computed from "
                             "mis-typed pixel indices: %s" %
                             (target.attr, t[0][4:]), {"value": val.short()})
                # remember for the exit-liveness check
                it.__dict__.setdefault("_field_stores", {})[
                    (norm(target.value), target.attr)] = (stmt, val, want)
                it.__dict__.setdefault("_field_all", {}).setdefault(
                    (norm(target.value), target.attr), []).append(
                        (stmt, val))

    def finish(self, it):
        """field contracts are checked on the value live at function exit"""
        self._check_fields(it, getattr(it, "final_env", {}) or {})

    def _check_fields(self, it, fe, only_obj=None):
        """check (and forget) the recorded field stores of `only_obj` (all
        objects if None) against the values live in environment fe"""
        stores = getattr(it, "_field_stores", {})
        for (obj, attr) in list(stores):
            if only_obj is not None and obj != only_obj:
                continue
            stmt, val, want = stores.pop((obj, attr))
            allv = it._field_all.pop((obj, attr), [])
            live = fe.get("%s.%s" % (obj, attr), val)
            ax = it.fi.qualname not in AXIS_RELABEL
            ms = facet_mismatch(want, live, axes=ax)
            if not ms:
                continue
            # blame the store(s) whose own value contradicts the contract
            culprits = [(s2, v2) for s2, v2 in allv
                        if facet_mismatch(want, v2, axes=ax)] or \
                [(stmt, live)]
            for s2, v2 in culprits:
                for m in facet_mismatch(want, v2, axes=ax) or ms:
                    self.add(it, s2, "store",
                             "field %s.%s: %s" % (obj, attr, m),
                             {"value": v2.short(),
                              "contract": want.short()})
