# Positive fixture for C07-R2 (expected count on /repo is zero after the fix):
# the detector must recognise a reset() issued by worker code.
barrier = None


def worker(args):
    i = barrier.wait()
    if i == 0:
        barrier.reset()
    return args
