#!/bin/sh
# Offline setup: verify the interpreters and libraries the checks need.
set -e
PY=python3-vt
command -v "$PY" >/dev/null 2>&1 || PY=/opt/veriftools/pyvenv/bin/python
"$PY" - <<'PYEOF'
import ast, json, sys
import networkx, sympy, jsonschema
assert sys.version_info >= (3, 9), "ast.unparse needed"
print("tooling python ok:", sys.version.split()[0], "networkx", networkx.__version__, "sympy", sympy.__version__)
PYEOF
/venv/bin/python -I -c "import numpy, scipy, astropy, healpy, lmfit, sklearn; print('repo env libraries importable (symbol tables for the link check)')"
chmod +x ./check
echo setup ok
