#!/usr/bin/env python3
"""add_fixed.py <property> <finding key> <substring of the fix: commit subject> <what failed>"""
import json, subprocess, sys, os
HERE = os.path.dirname(os.path.dirname(os.path.abspath(__file__)))
prop, key, sub, what = sys.argv[1:5]
log = subprocess.run(['git', '-C', '/repo', 'log', '--format=%h %s'], capture_output=True, text=True).stdout.splitlines()
c = [l.split()[0] for l in log if sub in l]
if len(c) != 1:
    raise SystemExit("commit subject substring %r matched %d commits" % (sub, len(c)))
p = os.path.join(HERE, 'known_findings.json')
k = json.load(open(p))
k['fixed'].append({"property": prop, "key": key, "commit": c[0], "what": "fixed: property=%s %s %s" % (prop, c[0], what)})
json.dump(k, open(p, 'w'), indent=1)
print("recorded", prop, c[0])
