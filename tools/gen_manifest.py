#!/usr/bin/env python3
"""Generate /verif/MANIFEST.json from the table below (single source of
truth; run after editing).  Validates against the schema if jsonschema is
available."""
import json
import os
import sys

HERE = os.path.dirname(os.path.dirname(os.path.abspath(__file__)))

COMMON_NOTE = (
    "Static analysis only: the check parses /repo's current working tree "
    "(ast), builds CFG / call graph / abstract values and decides the listed "
    "structural clauses, each a necessary condition of the property. It does "
    "not execute the repository. A PASS means every decided clause holds, "
    "not that the behavioural property holds for all inputs. Trusted base: "
    "third-party library behaviour as summarised in the evidence file "
    "(trusted_base), Python semantics of the recognised idioms.")

# id -> (technique, claim text, level_note-specific 'not decided', design_ref)
CHECKS = {}

NOT_APPLICABLE = {}


def add(pid, technique, text, not_decided, ref):
    CHECKS[pid] = (technique, text, not_decided, ref)


def load_table():
    sys.path.insert(0, HERE)
    from aegean_sa import manifest_data
    manifest_data.fill(add, NOT_APPLICABLE)


def main():
    load_table()
    props = [json.loads(l)["id"] for l in open(os.path.join(HERE,
                                                           "properties.jsonl"))]
    checks = []
    for pid in props:
        if pid not in CHECKS:
            continue
        tech, text, nd, ref = CHECKS[pid]
        checks.append({
            "property_id": pid,
            "quick_cmd": "./check %s --tier quick" % pid,
            "thorough_cmd": "./check %s --tier thorough" % pid,
            "evidence_file": "evidence/%s.json" % pid,
            "replay_cmd_template": "./check --explain {path}",
            "engine": "aegean_sa",
            "level_claimed": {"category": "other", "text": text,
                              "design_ref": ref},
            "level_note": COMMON_NOTE + " Not decided: " + nd,
            "technique": tech,
        })
    na = [{"property_id": p, "reason": NOT_APPLICABLE[p]}
          for p in props if p not in CHECKS]
    for p in props:
        if p not in CHECKS and p not in NOT_APPLICABLE:
            raise SystemExit("property %s neither claimed nor not_applicable"
                             % p)
    from aegean_sa import manifest_data
    m = {
        "version": 1,
        "setup_cmd": "sh ./setup.sh",
        "hooks": {
            "guard": "AEGEAN_VERIF",
            "enable": "none needed: static analysis reads the source; no "
                      "hook is compiled into or switched on in /repo",
            "baseline_off_cmd": "cd /repo && /venv/bin/python -m pytest -ra "
                                "-q -p no:cacheprovider --timeout=900 "
                                "--continue-on-collection-errors",
            "source_commits": [],
            "add_only": True,
        },
        "engines": manifest_data.ENGINES,
        "checks": checks,
        "not_applicable": na,
        "notes": manifest_data.NOTES,
    }
    out = os.path.join(HERE, "MANIFEST.json")
    with open(out, "w") as fh:
        json.dump(m, fh, indent=1)
        fh.write("\n")
    try:
        import jsonschema
        schema = json.load(open("/root/.vp/MANIFEST.schema.json"))
        jsonschema.validate(m, schema)
        print("MANIFEST.json valid: %d checks, %d not_applicable" %
              (len(checks), len(na)))
    except ImportError:
        print("written (jsonschema not available for validation)")


if __name__ == "__main__":
    main()
