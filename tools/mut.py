#!/usr/bin/env python3
"""tools/mut.py <Cxx> <relfile> <old> <new>  -- run a check on a scratch copy with one text edit (developer aid)"""
import sys, os
sys.path.insert(0, os.path.dirname(os.path.dirname(os.path.abspath(__file__))))
from aegean_sa import selftest
prop, rel, old, new = sys.argv[1:5]
r = selftest._run_variant(prop, "mutant", ("adhoc", rel, old, new, None))
print(r.get("status"), r.get("exit"), r.get("rules"))
print(r.get("output", r.get("why", "")))
