#!/usr/bin/env python3
"""tools/mutsweep.py <relfile> <first>-<last>[,<first>-<last>...] [props...]
developer aid: systematic single-token mutants (comparison / arithmetic /
boolean operators, small integer literals, subscript 0<->1) of the given line
ranges of /repo's committed source, each applied to a scratch copy; the quick
checks of the named properties (default: all whose anchors list the file) are
run on it.  Prints one line per mutant: the rules that fired, or SURVIVED.
Survivors are candidates for triage (equivalent mutant / outside every
property / gap in the checks) -- nothing is decided here.  JOBS env = workers.
/repo is never touched."""
import concurrent.futures as cf
import io
import json
import os
import shutil
import subprocess
import sys
import tempfile
import tokenize

VERIF = os.path.dirname(os.path.dirname(os.path.abspath(__file__)))
SWAP = {"<": ["<="], "<=": ["<"], ">": [">="], ">=": [">"], "==": ["!="],
        "!=": ["=="], "+": ["-"], "-": ["+"], "*": ["/"], "/": ["*"],
        "//": ["/"], "%": ["//"], "and": ["or"], "or": ["and"],
        "+=": ["-="], "-=": ["+="], "*=": ["/="], "/=": ["*="],
        "&": ["|"], "|": ["&"], "**": ["*"]}


def mutants(src, ranges):
    toks = list(tokenize.generate_tokens(io.StringIO(src).readline))
    lines = src.split("\n")
    out = []
    depth_sub = []
    for i, t in enumerate(toks):
        (r, c), (r2, c2) = t.start, t.end
        if not any(a <= r <= b for a, b in ranges) or r != r2:
            continue
        reps = []
        if t.type == tokenize.OP and t.string in SWAP:
            # unary minus / plus and keyword '*' are left alone
            prev = toks[i - 1] if i else None
            if t.string in "+-*" and prev is not None and (
                    prev.type == tokenize.OP and prev.string not in ")]}"):
                continue
            reps = SWAP[t.string]
        elif t.type == tokenize.NAME and t.string in SWAP:
            reps = SWAP[t.string]
        elif t.type == tokenize.NAME and t.string == "not":
            reps = [""]
        elif t.type == tokenize.NUMBER and t.string in ("0", "1", "2"):
            reps = {"0": ["1"], "1": ["0", "2"], "2": ["1"]}[t.string]
        elif t.type == tokenize.NAME and t.string in ("True", "False"):
            reps = ["False" if t.string == "True" else "True"]
        for rep in reps:
            ln = lines[r - 1]
            new = ln[:c] + rep + ln[c2:]
            ml = lines[:r - 1] + [new] + lines[r:]
            out.append((r, c, t.string, rep, "\n".join(ml)))
    return out


def props_for(rel):
    out = []
    for l in open(os.path.join(VERIF, "properties.jsonl")):
        d = json.loads(l)
        if rel in d.get("anchors", {}).get("files", []):
            out.append(d["id"])
    return out


def one(args):
    rel, r, c, old, new, text, props = args
    t = tempfile.mkdtemp(prefix="msw_")
    try:
        subprocess.run("git -C /repo archive HEAD AegeanTools scripts | "
                       "tar -x -C %s" % t, shell=True, check=True)
        p = os.path.join(t, rel)
        open(p, "w").write(text)
        try:
            compile(text, p, "exec")
        except SyntaxError:
            return (r, c, old, new, "SYNTAX")
        fired = []
        for pr in props:
            env = dict(os.environ, AEGEAN_REPO=t,
                       AEGEAN_EVIDENCE_DIR=os.path.join(t, "ev"))
            rr = subprocess.run(["./check", pr], cwd=VERIF, env=env,
                                capture_output=True, text=True)
            if rr.returncode == 1:
                rules = sorted({x.split("[", 1)[1].split("]", 1)[0]
                                for x in rr.stdout.splitlines()
                                if ": [" in x})
                fired.append("%s(%s)" % (pr, ",".join(rules)))
            elif rr.returncode == 2:
                fired.append("%s(exit2)" % pr)
        return (r, c, old, new, " ".join(fired) or "SURVIVED")
    finally:
        shutil.rmtree(t, ignore_errors=True)


def main():
    rel = sys.argv[1]
    ranges = [tuple(int(x) for x in part.split("-"))
              for part in sys.argv[2].split(",")]
    props = sys.argv[3:] or props_for(rel)
    src = subprocess.run(["git", "-C", "/repo", "show", "HEAD:" + rel],
                         capture_output=True, text=True, check=True).stdout
    ms = mutants(src, ranges)
    lines = src.split("\n")
    print("# %s %s: %d mutants, checks %s" % (rel, sys.argv[2], len(ms),
                                               " ".join(props)))
    jobs = int(os.environ.get("JOBS", "6"))
    with cf.ThreadPoolExecutor(jobs) as ex:
        for r, c, old, new, res in ex.map(
                one, [(rel, r, c, o, n, t, props) for r, c, o, n, t in ms]):
            print("%s:%d:%d %r->%r  %-40s | %s" %
                  (rel.split("/")[-1], r, c, old, new, res[:200],
                   lines[r - 1].strip()[:90]), flush=True)


if __name__ == "__main__":
    main()
