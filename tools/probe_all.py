#!/usr/bin/env python3
"""tools/probe_all.py <probes.txt>  -- developer aid: each line `relfile|old|new` (\\n for newlines)
is applied to a scratch copy of /repo's committed source; all 20 quick checks are run on it and
the rules that fire are printed.  Nothing in /repo is touched."""
import concurrent.futures as cf, os, shutil, subprocess, sys, tempfile
VERIF = os.path.dirname(os.path.dirname(os.path.abspath(__file__)))
PROPS = ["C%02d" % i for i in range(1, 21)]


def one(line):
    rel, old, new = [x.replace("\\n", "\n") for x in line.split("|")[:3]]
    t = tempfile.mkdtemp(prefix="probe_")
    try:
        subprocess.run("git -C /repo archive HEAD AegeanTools scripts | tar -x -C %s" % t, shell=True, check=True)
        p = os.path.join(t, rel)
        src = open(p).read()
        if src.count(old) < 1:
            return line, "ANCHOR-NOT-FOUND"
        open(p, "w").write(src.replace(old, new, 1))
        fired = []
        for pr in PROPS:
            env = dict(os.environ, AEGEAN_REPO=t, AEGEAN_EVIDENCE_DIR=os.path.join(t, "ev"))
            r = subprocess.run(["./check", pr], cwd=VERIF, env=env, capture_output=True, text=True)
            if r.returncode == 1:
                rules = sorted({l.split("[", 1)[1].split("]", 1)[0] for l in r.stdout.splitlines() if ": [" in l})
                fired.append("%s(%s)" % (pr, ",".join(rules)))
            elif r.returncode == 2:
                fired.append("%s(exit2)" % pr)
        return line, " ".join(fired) or "MISSED"
    finally:
        shutil.rmtree(t, ignore_errors=True)


lines = [l.rstrip("\n") for l in open(sys.argv[1]) if l.strip() and not l.startswith("#")]
with cf.ThreadPoolExecutor(int(os.environ.get("JOBS", "5"))) as ex:
    for line, res in ex.map(one, lines):
        print("%-60s <- %s" % (res[:60], line.split("|")[2][:90].replace("\n", "\\n")))
