#!/bin/sh
# tools/run_on_patch.sh <patch.diff|-> [props...]  -- run checks on a scratch copy of /repo's committed source (HEAD)
# with the patch applied ("-" = no patch); never touches /repo's working tree
P="$1"; shift
T=$(mktemp -d /tmp/rop_XXXXXX)
git -C /repo archive HEAD AegeanTools scripts | tar -x -C "$T" && cd "$T" && git init -q . || exit 3
if [ "$P" != "-" ]; then git apply "$P" || { echo "patch does not apply"; rm -rf "$T"; exit 3; }; fi
cd /verif
PROPS="$@"; [ -z "$PROPS" ] && PROPS="C01 C02 C03 C04 C05 C06 C07 C08 C09 C10 C11 C12 C13 C14 C15 C16 C17 C18 C19 C20"
for p in $PROPS; do
  AEGEAN_REPO="$T" AEGEAN_EVIDENCE_DIR="$T/ev" ./check $p > "$T/out_$p.txt" 2>&1; rc=$?
  if [ $rc -ne 0 ]; then echo "== $p exit $rc"; grep -E "\[C[0-9]+-R|ANALYSIS-ERROR" "$T/out_$p.txt" | cut -c1-330 | head -6; else tail -1 "$T/out_$p.txt" | cut -c1-200; fi
done
rm -rf "$T"
echo "run_on_patch done"
