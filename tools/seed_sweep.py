#!/usr/bin/env python3
"""Apply every kept seeded change to /repo in turn (git apply), run all
registered quick checks, undo it (git checkout), and record in the seed's
meta.json which checks raised a VIOLATION.  /repo must be clean.

With --scratch N the same is done on N scratch copies of /repo's HEAD in
parallel (git archive | tar, git apply there, AEGEAN_REPO pointing at the
copy); /repo itself is then not touched."""
import json, os, subprocess, sys, shutil
VERIF = os.path.dirname(os.path.dirname(os.path.abspath(__file__)))
sys.path.insert(0, os.path.join(VERIF, "tools"))
from verify_seed import run_checks, sh
import concurrent.futures as cf, tempfile
argv = sys.argv[1:]
JOBS = 0
if "--scratch" in argv:
    k = argv.index("--scratch")
    JOBS = int(argv[k + 1])
    del argv[k:k + 2]
only = argv
st = sh("git -C /repo status --porcelain")[1].strip()
if st:
    raise SystemExit("/repo not clean: " + st)
rows = []
HEAD = sh("git -C /repo rev-parse --short HEAD")[1].strip()


def record(name, d, meta, res, where):
    meta.pop("sweep_error", None)
    meta["checks_alarmed"] = res
    meta["checks_run_on"] = where
    meta["swept_at_repo_head"] = HEAD
    prop = meta.get("property")
    if prop is None:
        # behaviour-preserving refactoring: nothing may print a VIOLATION
        meta["false_alarms"] = sorted(k for k, v in res.items() if v["exit"] == 1)
        meta["analysis_errors"] = sorted(k for k, v in res.items() if v["exit"] == 2)
        row = (name, "FALSE-ALARM" if meta["false_alarms"] else "silent",
               ",".join("%s:exit%d" % (k, v["exit"]) for k, v in res.items()))
    else:
        meta["caught_by_own_property_check"] = prop in res and res[prop]["exit"] == 1
        meta["caught_by_any_check"] = any(v["exit"] == 1 for v in res.values())
        row = (name, "caught" if meta["caught_by_own_property_check"] else
               ("caught-by-other" if meta["caught_by_any_check"] else "MISSED"),
               ",".join("%s:%s" % (k, "/".join(v["rules"]) or "exit%d" % v["exit"])
                        for k, v in res.items()))
    print("%-34s %-16s %s" % row, flush=True)
    json.dump(meta, open(os.path.join(d, "meta.json"), "w"), indent=1)
    return row


def one_scratch(name):
    d = os.path.join(VERIF, "seeded", name)
    patch = os.path.join(d, "patch.diff")
    meta = json.load(open(os.path.join(d, "meta.json")))
    t = tempfile.mkdtemp(prefix="sweep_")
    try:
        sh("git -C /repo archive HEAD AegeanTools scripts | tar -x -C %s" % t)
        sh("git init -q .", cwd=t)
        rc, out = sh("git apply %s" % patch, cwd=t)
        if rc:
            meta["sweep_error"] = "patch no longer applies: " + out[-200:]
            json.dump(meta, open(os.path.join(d, "meta.json"), "w"), indent=1)
            print("%-34s NO-APPLY" % name, flush=True)
            return (name, "NO-APPLY", "")
        res = run_checks(name, t)
        return record(name, d, meta, res, "a scratch copy of /repo's HEAD "
                      "with the patch applied (git apply); /repo untouched")
    finally:
        shutil.rmtree(t, ignore_errors=True)


names = [n for n in sorted(os.listdir(os.path.join(VERIF, "seeded")))
         if os.path.exists(os.path.join(VERIF, "seeded", n, "patch.diff"))
         and (not only or n in only)]
if JOBS:
    with cf.ThreadPoolExecutor(JOBS) as ex:
        rows = list(ex.map(one_scratch, names))
else:
    for name in names:
        d = os.path.join(VERIF, "seeded", name)
        patch = os.path.join(d, "patch.diff")
        meta = json.load(open(os.path.join(d, "meta.json")))
        rc, out = sh("git -C /repo apply %s" % patch)
        if rc:
            meta["sweep_error"] = "patch no longer applies: " + out[-200:]
            rows.append((name, "NO-APPLY", ""))
            json.dump(meta, open(os.path.join(d, "meta.json"), "w"), indent=1)
            continue
        try:
            res = run_checks(name, None)
        finally:
            sh("git -C /repo checkout -- .")
        rows.append(record(name, d, meta, res, "/repo with the patch applied "
                           "(git apply), undone afterwards"))
print("---- summary")
for r in rows:
    if r[1] not in ("caught", "silent"):
        print("%-34s %-16s %s" % r)
