#!/usr/bin/env python3
"""Apply every kept seeded change to /repo in turn (git apply), run all
registered quick checks, undo it (git checkout), and record in the seed's
meta.json which checks raised a VIOLATION.  /repo must be clean."""
import json, os, subprocess, sys, shutil
VERIF = os.path.dirname(os.path.dirname(os.path.abspath(__file__)))
sys.path.insert(0, os.path.join(VERIF, "tools"))
from verify_seed import run_checks, sh
only = sys.argv[1:]
st = sh("git -C /repo status --porcelain")[1].strip()
if st:
    raise SystemExit("/repo not clean: " + st)
rows = []
for name in sorted(os.listdir(os.path.join(VERIF, "seeded"))):
    d = os.path.join(VERIF, "seeded", name)
    patch = os.path.join(d, "patch.diff")
    if not os.path.exists(patch) or (only and name not in only):
        continue
    meta = json.load(open(os.path.join(d, "meta.json")))
    rc, out = sh("git -C /repo apply %s" % patch)
    if rc:
        meta["sweep_error"] = "patch no longer applies: " + out[-200:]
        rows.append((name, "NO-APPLY", ""))
    else:
        try:
            res = run_checks(name, None)
        finally:
            sh("git -C /repo checkout -- .")
        meta.pop("sweep_error", None)
        meta["checks_alarmed"] = res
        meta["checks_run_on"] = "/repo with the patch applied (git apply), undone afterwards"
        meta["swept_at_repo_head"] = sh("git -C /repo rev-parse --short HEAD")[1].strip()
        prop = meta.get("property")
        if prop is None:
            # behaviour-preserving refactoring: nothing may print a VIOLATION
            meta["false_alarms"] = sorted(k for k, v in res.items() if v["exit"] == 1)
            meta["analysis_errors"] = sorted(k for k, v in res.items() if v["exit"] == 2)
            rows.append((name, "FALSE-ALARM" if meta["false_alarms"] else "silent",
                         ",".join("%s:exit%d" % (k, v["exit"]) for k, v in res.items())))
        else:
            meta["caught_by_own_property_check"] = prop in res and res[prop]["exit"] == 1
            meta["caught_by_any_check"] = any(v["exit"] == 1 for v in res.values())
            rows.append((name, "caught" if meta["caught_by_own_property_check"] else
                         ("caught-by-other" if meta["caught_by_any_check"] else "MISSED"),
                         ",".join("%s:%s" % (k, "/".join(v["rules"])) for k, v in res.items())))
        print("%-28s %-16s %s" % rows[-1], flush=True)
    json.dump(meta, open(os.path.join(d, "meta.json"), "w"), indent=1)
for r in rows:
    print("%-28s %-16s %s" % r)
