#!/usr/bin/env python3
"""Print markdown tables of the kept seeded changes and refactoring twins from seeded/*/meta.json."""
import json, os
VERIF = os.path.dirname(os.path.dirname(os.path.abspath(__file__)))
rows, twins = [], []
for name in sorted(os.listdir(os.path.join(VERIF, "seeded"))):
    mp = os.path.join(VERIF, "seeded", name, "meta.json")
    if not os.path.exists(mp):
        continue
    m = json.load(open(mp))
    alarmed = m.get("checks_alarmed", {})
    if m.get("property") is None:
        fa = m.get("false_alarms", [])
        ae = m.get("analysis_errors", [])
        twins.append("| %s | %s | %s | %s |" % (
            name, m.get("what", "").replace("|", "/"),
            ("FALSE ALARM: " + ", ".join(fa)) if fa else
            ("no VIOLATION; exit 2 (idiom not recognised) in " + ", ".join(ae)) if ae
            else "silent on all 20 checks",
            m.get("history", "").replace("|", "/")))
        continue
    rules = "; ".join("%s: %s" % (k, ", ".join(v["rules"]) or ("exit %d" % v["exit"]))
                      for k, v in sorted(alarmed.items()))
    rows.append("| %s | %s | %s | %s | %s | %s |" % (
        name, m.get("property"), (m.get("what") or "").replace("|", "/"),
        (m.get("needs") or "").replace("|", "/"),
        "yes" if m.get("caught_by_own_property_check") else
        ("by another check" if m.get("caught_by_any_check") else "NO"),
        (rules or "-") + ((" — " + m["history"]) if m.get("history") else "")))
import sys
if "--compact" in sys.argv:
    # one short line per seed: the rules of its OWN property's check that
    # fire in the final sweep, and whether it was caught on arrival
    print("| seed | own check, final sweep | other checks that fire |")
    print("|---|---|---|")
    for name in sorted(os.listdir(os.path.join(VERIF, "seeded"))):
        mp = os.path.join(VERIF, "seeded", name, "meta.json")
        if not os.path.exists(mp):
            continue
        m = json.load(open(mp))
        if m.get("property") is None:
            continue
        al = m.get("checks_alarmed", {})
        own = al.get(m["property"], {})
        others = sorted(k for k, v in al.items()
                        if k != m["property"] and v.get("exit") == 1)
        print("| %s | %s | %s |" % (
            name, ", ".join(own.get("rules", [])) or
            ("NOT CAUGHT (exit %s)" % own.get("exit")),
            " ".join(others) or "-"))
    print()
    print("| refactoring | final sweep |")
    print("|---|---|")
    for name in sorted(os.listdir(os.path.join(VERIF, "seeded"))):
        mp = os.path.join(VERIF, "seeded", name, "meta.json")
        if not os.path.exists(mp):
            continue
        m = json.load(open(mp))
        if m.get("property") is not None or not name.startswith("refactor"):
            continue
        fa, ae = m.get("false_alarms", []), m.get("analysis_errors", [])
        print("| %s | %s |" % (name, ("FALSE ALARM: " + ", ".join(fa)) if fa
                               else ("exit 2 in " + ", ".join(ae)) if ae
                               else "silent on all 20 checks"))
    raise SystemExit(0)
print("| seed | property | change | needs, to manifest | caught by its own check | rules that fire (final sweep) — history |")
print("|---|---|---|---|---|---|")
print("\n".join(rows))
print()
print("| refactoring | edits | final sweep | history |")
print("|---|---|---|---|")
print("\n".join(twins))
