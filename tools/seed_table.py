#!/usr/bin/env python3
"""Print a markdown table of the kept seeded changes from seeded/*/meta.json."""
import json, os
VERIF = os.path.dirname(os.path.dirname(os.path.abspath(__file__)))
rows = []
for name in sorted(os.listdir(os.path.join(VERIF, "seeded"))):
    mp = os.path.join(VERIF, "seeded", name, "meta.json")
    if not os.path.exists(mp):
        continue
    m = json.load(open(mp))
    alarmed = m.get("checks_alarmed", {})
    rules = "; ".join("%s: %s" % (k, ", ".join(v["rules"]) or ("exit %d" % v["exit"]))
                      for k, v in sorted(alarmed.items()))
    rows.append("| %s | %s | %s | %s | %s | %s |" % (
        name, m.get("property"), m.get("what", "").replace("|", "/"),
        m.get("needs", "").replace("|", "/"),
        "yes" if m.get("caught_by_own_property_check") else
        ("by another check" if m.get("caught_by_any_check") else "NO"),
        (rules or "-") + ((" — " + m["history"]) if m.get("history") else "")))
print("| seed | property | change | needs, to manifest | caught | rules that fire / history |")
print("|---|---|---|---|---|---|")
print("\n".join(rows))
