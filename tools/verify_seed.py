#!/usr/bin/env python3
"""
tools/verify_seed.py <seed-name> <dir with patch.diff + demo.py [+ notes.md]> <property> [--no-tests]

Confirms a seeded change independently, in a scratch worktree of /repo:
  1. demo passes (exit 0) on the clean tree,
  2. patch applies, demo fails (exit 1) with it,
  3. the existing test suite still passes with it,
then applies the patch to /repo itself, runs every registered quick check,
undoes the patch, and records everything in /verif/seeded/<seed-name>/.
"""
import json
import os
import shutil
import subprocess
import sys
import time

VERIF = os.path.dirname(os.path.dirname(os.path.abspath(__file__)))


def sh(cmd, cwd=None, env=None, timeout=3600):
    r = subprocess.run(cmd, shell=True, cwd=cwd, env=env, text=True,
                       capture_output=True, timeout=timeout)
    return r.returncode, (r.stdout + r.stderr)


def run_demo(demo, cwd, env, limit=600):
    """run a demo in its own session with its output in a file (a demo that
    leaves worker processes behind would otherwise keep a pipe open and
    block us), then kill whatever is left of its process group"""
    import signal, tempfile
    with tempfile.TemporaryFile() as out:
        p = subprocess.Popen(["/venv/bin/python", demo], cwd=cwd, env=env,
                             stdout=out, stderr=subprocess.STDOUT,
                             start_new_session=True)
        try:
            rc = p.wait(timeout=limit)
        except subprocess.TimeoutExpired:
            rc = 124
        try:
            os.killpg(p.pid, signal.SIGKILL)
        except (ProcessLookupError, PermissionError):
            pass
        p.wait()
        out.seek(0)
        return rc, out.read().decode("utf-8", "replace")


def run_checks(name, repo):
    results = {}
    man = json.load(open(os.path.join(VERIF, "MANIFEST.json")))
    evd = "/tmp/vs_ev_%s" % name
    for c in man["checks"]:
        pid = c["property_id"]
        env = dict(os.environ, AEGEAN_EVIDENCE_DIR=evd)
        if repo:
            env["AEGEAN_REPO"] = repo
        r, o = sh(c["quick_cmd"], cwd=VERIF, env=env, timeout=900)
        rules = sorted({ln.split("[", 1)[1].split("]", 1)[0]
                        for ln in o.splitlines()
                        if ": [" in ln and "]" in ln})
        if r != 0:
            results[pid] = {"exit": r, "rules": rules}
            if r == 2:
                results[pid]["error"] = [ln for ln in o.splitlines()
                                         if "ANALYSIS-ERROR" in ln][:1]
    shutil.rmtree(evd, ignore_errors=True)
    return results


def main():
    name, src, prop = sys.argv[1:4]
    notests = "--no-tests" in sys.argv
    wt = "/tmp/vs_%s" % name
    sh("git -C /repo worktree remove --force %s" % wt)
    rc, out = sh("git -C /repo worktree add -q --detach %s HEAD" % wt)
    if rc:
        raise SystemExit("worktree: " + out)
    meta = {"seed": name, "property": prop,
            "repo_head": sh("git -C /repo rev-parse --short HEAD")[1].strip(),
            "verified_at": time.strftime("%Y-%m-%d %H:%M:%S")}
    try:
        env = dict(os.environ, PYTHONPATH=wt)
        demo = os.path.abspath(os.path.join(src, "demo.py"))
        patch = os.path.abspath(os.path.join(src, "patch.diff"))
        rc0, o0 = run_demo(demo, wt, env)
        meta["demo_clean_exit"] = rc0
        rca, oa = sh("git -C %s apply %s" % (wt, patch))
        meta["patch_applies"] = rca == 0
        if rca:
            meta["apply_error"] = oa[-400:]
        rc1, o1 = run_demo(demo, wt, env)
        meta["demo_patched_exit"] = rc1
        meta["demo_patched_tail"] = o1[-500:]
        if not notests:
            rct, ot = sh("/venv/bin/python -m pytest -q -p no:cacheprovider "
                         "--timeout=900 tests 2>&1 | tail -3", cwd=wt)
            meta["tests_tail"] = ot.strip().splitlines()[-1] if ot.strip() \
                else ""
            meta["tests_pass"] = " passed" in meta["tests_tail"] and \
                "failed" not in meta["tests_tail"]
        results = {}
        if "--in-worktree" in sys.argv:
            sh("git -C %s checkout -- tests" % wt)
            results = run_checks(name, wt)
            meta["checks_run_on"] = "scratch worktree with the patch " \
                "(AEGEAN_REPO); re-confirmed on /repo by tools/seed_sweep.py"
    finally:
        sh("git -C /repo worktree remove --force %s" % wt)
        shutil.rmtree(wt, ignore_errors=True)
    if "--in-worktree" not in sys.argv:
        # run the checks on /repo itself with the patch applied
        st = sh("git -C /repo status --porcelain")[1].strip()
        if st:
            raise SystemExit("/repo not clean: " + st)
        rc, out = sh("git -C /repo apply %s" % patch)
        try:
            if rc == 0:
                results = run_checks(name, None)
                meta["checks_run_on"] = "/repo with the patch applied"
        finally:
            sh("git -C /repo checkout -- .")
    meta["checks_alarmed"] = results
    meta["caught_by_own_property_check"] = prop in results and \
        results[prop]["exit"] == 1
    meta["caught_by_any_check"] = any(v["exit"] == 1
                                      for v in results.values())
    dst = os.path.join(VERIF, "seeded", name)
    os.makedirs(dst, exist_ok=True)
    for f in ("patch.diff", "demo.py", "notes.md"):
        p = os.path.join(src, f)
        if os.path.exists(p):
            shutil.copy(p, os.path.join(dst, f))
    old = {}
    mp = os.path.join(dst, "meta.json")
    if os.path.exists(mp):
        old = json.load(open(mp))
    old.update(meta)
    json.dump(old, open(mp, "w"), indent=1)
    print(json.dumps({k: v for k, v in meta.items()
                      if k not in ("demo_patched_tail",)}, indent=1))


if __name__ == "__main__":
    main()
